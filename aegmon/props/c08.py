"""C08 - Region operations are set algebra on sky pixels, for every history.

Monitor
  * every public method of AegeanTools.regions.Region (and _renorm, which MIMAS itself calls from outside) is wrapped on
    the class: a history log, call counters, and - when the *outermost* call returns - the class invariant
    (ids integer valued and in range for their level, no stored pixel is an ancestor/descendant of another stored pixel)
    evaluated on a copy of `pixeldict`.  icontract.invariant is not used for this: it also fires after the nested
    self.add_pixels(...) inside add_circles/union, i.e. on states the class never exposes; the depth counter below is the
    "equivalent wrapper" that evaluates the invariant only at the public boundary.
  * a shadow model per region (a Python set of int nested ids at the region's maxdepth, aegmon/refs/healset.py) is
    updated in lock-step by plain set operations.
  * observation never touches the subject: the deepest-level set is expanded from a copy of `pixeldict`; "what would the
    region answer now" is asked of a deepcopy (clone) of the region (area -> sky_within -> get_demoted -> area ->
    sky_within, so the read-only clause is evaluated on the clone as well); queries that are part of the history are
    made on the real object and their results checked too.
  * add_pixels and union are also driven with the public `renorm=False` (deferred renormalisation).  After such a call
    the caller has opted out of the normal form: the overlap clause and the get_area clauses are out of domain for that
    region until its next renormalising operation (those steps are counted as not judged); deepest-level set,
    sky_within, get_demoted, read-only queries and the results of later without/intersect/symmetric_difference stay
    fully judged.
"""
import contextlib
import copy
import io
import itertools
import os
import shutil
import traceback

import numpy as np

from aegmon.common import Obs, rng_for, scratch_dir
from aegmon.refs import healset as hs

ID = 'C08'
LEVEL = 'exploration'
RULE = ('a case is one history (random kind: length 12, depth 2..10, pool of operand regions of depth +-3, queries '
        'interleaved with p=0.4, ops generated from the case seed and the evolving model), one block of the '
        'bounded-exhaustive enumeration (all sequences over the 20-operation alphabet with a given first operation), one '
        'targeted script, or one MIMAS.combine_regions container; an evaluation is one executed operation after which '
        'invariant + state-vs-model + clone answers were judged; a history is non-trivial when it changed the model at '
        'least once; distinct = case hash (exhaustive blocks count their sequences, all distinct by construction)')
ASSUMPTIONS = ['shapes (pixels of a disc/polygon at a level) come from the same healpy queries the region uses - C09 '
               'judges those; independent here: level arithmetic, set algebra, normal form, cache, area',
               'aegmon/refs/healset.py nested arithmetic, cross-checked against healpy pix2vec/vec2pix at start-up',
               'probe directions are centres of descendants 2-3 levels below the region depth, so membership never '
               'hinges on a floating-point tie; exact seam positions (poles, ra 0/360, equator, pixel corners) are '
               'judged only where every cell touching the position has the same membership in the model', 'driven single-threaded']
MIN_REACH = {'regions:Region.union': 1, 'regions:Region.without': 1, 'regions:Region.intersect': 1,
             'regions:Region.symmetric_difference': 1, 'regions:Region.sky_within': 1, 'regions:Region.get_demoted': 1,
             'regions:Region.get_area': 1, 'regions:Region._renorm': 1, 'regions:Region._demote_all': 1,
             'regions:Region.add_pixels': 1, 'regions:Region.add_poly': 1, 'regions:Region.save': 1,
             'MIMAS:combine_regions': 1, 'MIMAS:intersect_regions': 1, 'MIMAS:reg2mim': 1}
MIN_COUNTERS = {'invariant_evaluated': 2000, 'steps_judged': 2000, 'probe_clones': 2000, 'op_union_finer': 20,
                'op_union_coarser': 20, 'op_add_pixels_bare': 50, 'op_add_pixels_renorm': 50,
                'bare_add_pixels_coarse_after_query': 10, 'op_pickle': 20, 'op_self_operand': 5,
                'op_empty_operand': 5, 'op_whole_sky_operand': 3, 'sky_within_probes_judged': 5000,
                'combine_regions_judged': 3, 'exhaustive_sequences': 1000,
                'op_union_renorm_false': 100, 'op_add_pixels_renorm_false': 50,
                'union_renorm_false_with_coarse_pixels_after_query': 5,
                'renorm_false_add_pixels_coarse_after_query': 5,
                'wrapper_cases': 30, 'intersect_orders_judged': 300, 'intersect_three_or_more_operands': 200,
                'intersect_first_operand_whole_coarse_pixels': 100, 'intersect_operand_with_empty_deepest_level': 30,
                'reg2mim_later_calls_judged': 60, 'combine_fresh_container_judged': 90,
                'seam_probes_judged': 500000, 'pole_probes_judged': 100000, 'pole_probes_expected_inside': 5000,
                'seam_probes_expected_inside': 50000, 'pole_scalar_calls': 50}
BATCH_TIMEOUT = 1500

AREA_RTOL = 1e-9        # float summation over <= 12 levels; the statement says "exactly", sets are compared exactly
MAX_PIX = 200000        # cap on deepest-level pixels of any one region


# =============================================================================================== monitor on the class
class _Mon:
    obs = None
    depth = 0
    mute = 0
    defer = 0
    events = []
    log = []
    installed = False


MUTATORS = ('add_circles', 'add_poly', 'add_pixels', 'union', 'without', 'intersect', 'symmetric_difference', '_renorm')
QUERIES = ('sky_within', 'get_demoted', 'get_area', 'save', 'write_reg', 'write_fits')


def _short(x):
    if isinstance(x, (int, float, str, bool)) or x is None:
        return x
    if isinstance(x, np.ndarray):
        return 'ndarray%s' % (x.shape,)
    if isinstance(x, (list, tuple, set)):
        return '%s[%d]' % (type(x).__name__, len(x))
    if hasattr(x, 'maxdepth'):
        return 'Region#%x(d%s)' % (id(x) & 0xffff, getattr(x, 'maxdepth', '?'))
    return type(x).__name__


def check_invariant(region):
    """-> (levels{d:set(int)}, fractional ids, problems)   evaluated on a copy; never modifies `region`"""
    levels, frac = hs.to_levels(dict((d, set(s)) for d, s in region.pixeldict.items()))
    probs = hs.id_problems(levels, region.maxdepth) + hs.overlap_problems(levels)
    return levels, frac, probs


def _after_public(self, name, kind):
    o = _Mon.obs
    o.count('call_' + name)
    if _Mon.defer:
        return
    levels, frac, probs = check_invariant(self)
    o.count('invariant_evaluated')
    o.count('invariant_after_' + kind)
    if frac or probs:
        _Mon.events.append({'obj': id(self), 'method': name, 'fractional': frac[:6], 'problems': probs[:4],
                            'maxdepth': self.maxdepth})


def _wrap(cls, name, kind):
    orig = cls.__dict__[name]

    def w(self, *a, **k):
        _Mon.depth += 1
        try:
            res = orig(self, *a, **k)
        finally:
            _Mon.depth -= 1
        if _Mon.depth == 0 and not _Mon.mute and _Mon.obs is not None:
            if len(_Mon.log) < 400:
                _Mon.log.append('%s.%s(%s) -> %s' % (_short(self), name, ', '.join(str(_short(x)) for x in a), _short(res)))
            _after_public(self, name, kind)
        return res
    w.__name__ = name
    w.__doc__ = orig.__doc__
    w.__wrapped__ = orig
    return w


def install():
    if _Mon.installed:
        return
    from AegeanTools import regions, MIMAS
    R = regions.Region
    if MIMAS.Region is not R:
        raise RuntimeError('harness: MIMAS.Region is not regions.Region')
    for n in MUTATORS:
        setattr(R, n, _wrap(R, n, 'mutator'))
    for n in QUERIES:
        setattr(R, n, _wrap(R, n, 'query'))
    _Mon.installed = True


@contextlib.contextmanager
def muted():
    _Mon.mute += 1
    try:
        yield
    finally:
        _Mon.mute -= 1


def set_obs(o):
    _Mon.obs = o
    _Mon.events = []
    _Mon.log = []
    _Mon.depth = 0
    _Mon.mute = 0
    _Mon.defer = 0


# =============================================================================================== mechanism predicates
STATE_CLAUSES = ('state_vs_model', 'probe_get_demoted', 'probe_sky_within', 'get_demoted_vs_model',
                 'sky_within_vs_model', 'probe_query_changes_membership')
AREA_CLAUSES = ('overlap', 'probe_get_area', 'get_area_vs_model', 'probe_query_changes_area')


def mechanism(clause, w):
    """Predicate over the witness -> mechanism key (or None).  Keys:
    finer-union-fractional-id        a non-integer id is stored and the history has a union of that region with a finer one
    stale-cache-after-bare-add_pixels wrong membership/deepest set while (or right after) the region's non-empty `demoted`
                                      cache is incoherent with its `pixeldict` (different set, or coarse pixels left
                                      un-demoted beside it), the incoherence having started at a bare add_pixels
    bare-add_pixels-overlap          ancestor+descendant stored (area counted twice) since a bare add_pixels, not renormalised since
    maxdepth-1-demote                UnboundLocalError out of _demote_all on a region with maxdepth 1
    add_pixels-scalar-int            TypeError from add_pixels(pix=<int>) although the docstring allows an int
    """
    t = w.get('target') or {}
    op = w.get('op') or {}
    if clause == 'raises':
        if w.get('exc_type') == 'UnboundLocalError' and '_demote_all' in w.get('tb', '') and \
                1 in (t.get('depth'), w.get('operand_depth')):
            return 'maxdepth-1-demote'
        if w.get('exc_type') == 'TypeError' and op.get('op') == 'add_pixels' and op.get('as') == 'int':
            return 'add_pixels-scalar-int'
        return None
    if clause == 'id_not_integer':
        tid = w.get('slot')
        for h in w.get('history', []):
            if h.get('op') == 'union' and h.get('t') == tid and h.get('o_depth', 0) > h.get('t_depth', 99):
                return 'finer-union-fractional-id'
        if w.get('in_combine') and w.get('finer_add_region'):
            return 'finer-union-fractional-id'
        return None
    if clause in STATE_CLAUSES and (t.get('stale_cause') == 'add_pixels_bare' or
                                    w.get('stale_before_op') == 'add_pixels_bare'):
        return 'stale-cache-after-bare-add_pixels'
    if clause in AREA_CLAUSES and t.get('overlap_cause') == 'add_pixels_bare':
        return 'bare-add_pixels-overlap'
    return None


# =============================================================================================== shadow + driver
class Slot:
    def __init__(self, region, depth, name):
        self.region = region
        self.depth = depth
        self.name = name
        self.model = set()
        self.stale_cause = None      # cause (op label) of a cache observed stale, None when coherent
        self.overlap_cause = None    # cause of an invariant (overlap) currently broken
        self.last_mutator = None
        self.queried = False         # a demoting call happened since the last renormalisation
        self.probe = True            # ask a clone for its answers after every step
        self.optout = False          # the caller passed renorm=False: normal form and get_area are out of domain until
                                     # the next operation that renormalises; membership stays fully judged


def vec_of(ra, dec):
    import healpy as hp
    return hp.ang2vec(np.pi / 2 - np.asarray(dec, dtype=float), np.asarray(ra, dtype=float))


class History:
    """Applies explicit op records to the real regions and to the shadow models; judges after every step."""

    def __init__(self, o, workdir, probe_rng, probe_clone=True):
        from AegeanTools.regions import Region
        self.Region = Region
        self.o = o
        self.workdir = workdir
        self.pool = []
        self.hist = []
        self.dead = False
        self.changed = False
        self.prng = probe_rng
        self.probe_clone = probe_clone
        self.nfile = 0
        self.old_ids = {}       # id of an object replaced by its reloaded copy during this step -> slot
        self.keep = []          # ... kept alive so that the id cannot be reused

    # ------------------------------------------------------------------ helpers
    def new_slot(self, depth, name, probe=True):
        with muted():
            r = self.Region(maxdepth=depth)
        s = Slot(r, depth, name)
        s.probe = probe
        self.pool.append(s)
        return len(self.pool) - 1

    def adopt(self, region, model, name, probe=True):
        s = Slot(region, region.maxdepth, name)
        s.model = set(model)
        s.probe = probe
        self.pool.append(s)
        return len(self.pool) - 1

    def slot_summary(self, s):
        r = s.region
        try:
            lv = dict((int(d), len(x)) for d, x in r.pixeldict.items() if len(x))
            cl = len(r.demoted)
        except Exception:
            lv, cl = None, None
        return {'name': s.name, 'depth': s.depth, 'stored_per_level': lv, 'cache_len': cl, 'model_size': len(s.model),
                'stale_cause': s.stale_cause, 'overlap_cause': s.overlap_cause, 'renorm_opted_out': s.optout}

    def violate(self, clause, detail, rec, slot=None):
        w = {'step': len(self.hist), 'op': self.compact(rec), 'slot': slot,
             'target': self.slot_summary(self.pool[slot]) if slot is not None else None,
             'history': self.hist[-40:], 'calls': _Mon.log[-12:]}
        w.update(detail)
        m = mechanism(clause, w)
        self.o.violate(clause, w, m)
        if m:
            self.o.count('mechanism_' + m)
        return m

    def subject(self, rec, slot, fn, *a, **k):
        """call the real code; an exception inside the domain is a violation and ends the history"""
        try:
            return True, fn(*a, **k)
        except Exception as e:
            tb = traceback.format_exc()
            od = rec.get('o_depth')
            self.violate('raises', {'exc_type': type(e).__name__, 'exc': repr(e)[:300], 'tb': tb[-900:],
                                    'operand_depth': od}, rec, slot)
            self.dead = True
            return False, None

    def probes(self, s, n=24):
        """-> (ra, dec, expected membership) centres of descendants, never on a cell edge"""
        import healpy as hp
        M = s.depth
        k = 2 if M <= 10 else 1
        rng = self.prng
        deep = []
        mem = s.model
        if mem:
            lst = list(itertools.islice(iter(mem), 0, 4000))
            pick = [lst[i] for i in rng.integers(0, len(lst), min(n // 3, len(lst)))]
            deep += pick
            nb = hp.get_all_neighbours(2 ** M, np.array(pick), nest=True).ravel()
            nb = nb[nb >= 0]
            if nb.size:
                deep += [int(x) for x in rng.choice(nb, min(n // 3, nb.size), replace=False)]
        deep += [int(x) for x in rng.integers(0, hs.npix(M), n // 3)]
        deep += [0, hs.npix(M) - 1, 3 * 4 ** M - 1]      # caps and an equatorial face corner
        deep = np.array(deep, dtype=np.int64)
        child = deep * 4 ** k + rng.integers(0, 4 ** k, deep.size)
        theta, phi = hp.pix2ang(2 ** (M + k), child, nest=True)
        ra, dec = phi, np.pi / 2 - theta
        back = hp.ang2pix(2 ** M, np.pi / 2 - dec, ra, nest=True)
        good = back == deep
        self.o.count('probes_undetermined', int((~good).sum()))
        ra, dec, deep = ra[good], dec[good], deep[good]
        exp = np.array([int(p) in mem for p in deep], dtype=bool)
        return ra, dec, exp

    def seams(self, s, unit, count=True):
        """Exact seam positions, in the unit the call will use ('rad' or 'deg'): the poles dec = +-90 at several RA,
        ra = 0 / 360 / -0.0, the equator, base-face corners, and corners of member and non-member pixels.
        A position is judged only where the answer is determined: the cell healpy assigns to the very floats the
        region will compute, and the cells of eight positions 1e-8 rad around it (at a pole: the four polar cells),
        must all have the same membership in the model; otherwise it is dropped and counted as undetermined.
        -> (ra, dec, expected) in `unit`"""
        import healpy as hp
        M = s.depth
        mem = s.model
        rng = self.prng
        q = np.pi / 2
        pts = [(0.0, q), (q / 2, q), (3 * q / 2, q), (5 * q / 2, q), (7 * q / 2, q), (4 * q, q), (-0.0, q), (q, q),
               (0.0, -q), (q / 2, -q), (3 * q / 2, -q), (5 * q / 2, -q), (7 * q / 2, -q), (4 * q, -q), (2 * q, -q),
               (0.0, 0.0), (4 * q, 0.0), (-0.0, 0.0), (q, 0.0), (2 * q, 0.0), (3 * q, -0.0), (q / 2, 0.0),
               (0.0, np.arcsin(2.0 / 3)), (4 * q, -np.arcsin(2.0 / 3)), (q, np.arcsin(2.0 / 3)), (0.0, q / 3)]
        if unit == 'deg':
            pts = [(0.0, 90.0), (45.0, 90.0), (135.0, 90.0), (225.0, 90.0), (315.0, 90.0), (360.0, 90.0), (-0.0, 90.0),
                   (90.0, 90.0), (0.0, -90.0), (45.0, -90.0), (135.0, -90.0), (225.0, -90.0), (315.0, -90.0),
                   (360.0, -90.0), (180.0, -90.0), (0.0, 0.0), (360.0, 0.0), (-0.0, 0.0), (90.0, 0.0), (180.0, 0.0),
                   (270.0, -0.0), (45.0, 0.0), (0.0, 30.0), (360.0, -30.0), (90.0, 30.0), (0.0, 41.8103148957786)]
        ra = np.array([p[0] for p in pts], dtype=float)
        dec = np.array([p[1] for p in pts], dtype=float)
        # corners of a few member pixels and of a few others (exactly on cell boundaries, up to rounding)
        some = list(itertools.islice(iter(mem), 0, 500))
        pick = [some[int(x)] for x in rng.integers(0, len(some), min(3, len(some)))] if some else []
        pick += [int(x) for x in rng.integers(0, hs.npix(M), 2)] + [0, hs.npix(M) - 1]
        for p in pick:
            th, ph = hp.vec2ang(np.array(hp.boundaries(2 ** M, int(p), step=1, nest=True)).T)
            d = np.pi / 2 - th
            keep = (np.abs(d) < 1.57) | (np.abs(d) == np.pi / 2)
            if unit == 'deg':
                ra = np.append(ra, np.degrees(ph[keep]))
                dec = np.append(dec, np.degrees(d[keep]))
            else:
                ra = np.append(ra, ph[keep])
                dec = np.append(dec, d[keep])
        # the floats the region computes
        if unit == 'deg':
            th, ph = np.pi / 2 - np.radians(dec), np.radians(ra)
        else:
            th, ph = np.pi / 2 - dec, ra.copy()
        inrange = (th >= 0) & (th <= np.pi)
        ra, dec, th, ph = ra[inrange], dec[inrange], th[inrange], ph[inrange]
        e = 1e-8
        votes = []
        for dt in (-e, 0.0, e):
            for dp in (-e, 0.0, e):
                votes.append(hp.ang2pix(2 ** M, np.clip(th + dt, 0, np.pi), ph + dp, nest=True))
        for quad in (0.7, 2.3, 3.9, 5.5):           # at a pole the point belongs to the four polar cells
            votes.append(np.where(th <= e, hp.ang2pix(2 ** M, e, quad, nest=True),
                                  np.where(th >= np.pi - e, hp.ang2pix(2 ** M, np.pi - e, quad, nest=True), votes[4])))
        votes = np.array(votes)
        inside = np.array([[int(c) in mem for c in row] for row in votes.T], dtype=bool).reshape(len(th), -1)
        det = inside.all(axis=1) | (~inside).all(axis=1)
        exp = inside[:, 0][det] if len(th) else np.zeros(0, dtype=bool)
        if count:
            pole = (np.abs(th[det]) == 0) | (th[det] == np.pi)
            self.o.count('seam_probes_judged', int(det.sum()))
            self.o.count('seam_probes_undetermined', int((~det).sum()))
            self.o.count('pole_probes_judged', int(pole.sum()))
            self.o.count('pole_probes_expected_inside', int((pole & exp).sum()))
            self.o.count('seam_probes_expected_inside', int(exp.sum()))
        return ra[det], dec[det], exp

    # ------------------------------------------------------------------ judging
    def drain_events(self, rec, in_combine=None):
        ev, _Mon.events = _Mon.events, []
        ids = dict(self.old_ids)
        ids.update((id(s.region), i) for i, s in enumerate(self.pool))
        seen_frac = set()
        for e in ev:
            i = ids.get(e['obj'])
            s = self.pool[i] if i is not None else None
            extra = dict(in_combine or {})
            if e['fractional']:
                if e['obj'] in seen_frac:        # the same object, seen again after a later call of the same step
                    continue
                seen_frac.add(e['obj'])
                self.violate('id_not_integer', dict(extra, fractional_ids=e['fractional'], after_method=e['method'],
                                                    region_maxdepth=e['maxdepth']), rec, i)
                self.dead = True
                continue
            for p in e['problems']:
                if p['kind'] == 'ancestor_and_descendant_stored':
                    cause = self.label(rec)
                    if s is not None and s.optout:
                        self.o.count('overlap_not_judged_renorm_opted_out')
                        continue
                    if s is not None:
                        if s.overlap_cause is not None:
                            self.o.count('overlap_persisting_steps')
                            continue
                        s.overlap_cause = cause
                    self.o.count('overlap_after_' + cause)
                    self.violate('overlap', dict(extra, problem=p, after_method=e['method']), rec, i)
                else:
                    self.violate('id_out_of_range', dict(extra, problem=p, after_method=e['method']), rec, i)
                    self.dead = True
        # an overlap that is gone is forgotten
        for s in self.pool:
            if s.overlap_cause is not None:
                lv, fr, pr = check_invariant(s.region)
                if not any(p['kind'] == 'ancestor_and_descendant_stored' for p in pr):
                    s.overlap_cause = None

    @staticmethod
    def compact(rec):
        pix = rec.get('pix')
        if pix is not None and len(pix) > 48:
            rec = dict(rec, pix={'n': len(pix), 'min': min(pix), 'max': max(pix),
                                 'contiguous': max(pix) - min(pix) + 1 == len(set(pix))})
        return rec

    @staticmethod
    def label(rec):
        if rec.get('op') == 'add_pixels':
            if rec.get('optout'):
                return 'add_pixels_renorm_false'
            return 'add_pixels_renorm' if rec.get('renorm') else 'add_pixels_bare'
        if rec.get('op') == 'union' and rec.get('optout'):
            return 'union_renorm_false'
        return rec.get('op', '?')

    def judge(self, i, rec, stale_before=None):
        """passive state-vs-model + cache coherence + clone answers for slot i"""
        s = self.pool[i]
        o = self.o
        r = s.region
        levels, frac = hs.to_levels(dict((d, set(x)) for d, x in r.pixeldict.items()))
        if frac:
            if not self.dead:       # not yet reported through an invariant event
                self.violate('id_not_integer', {'fractional_ids': frac[:6]}, rec, i)
                self.dead = True
            return
        exp = hs.expand(levels, s.depth)
        o.count('state_judged')
        o.worst('deepest_pixels_per_region', len(exp))
        if exp != s.model:
            self.violate('state_vs_model', self.diff(exp, s.model, stale_before), rec, i)
            self.dead = True
            return
        # cache coherence is an observation (it becomes a violation only through a wrong answer)
        cache = r.demoted
        if len(cache):
            cl, cf = hs.to_levels({s.depth: set(cache)})
            # _demote_all skips its work whenever the cache is non-empty, so a coherent cache means: same set AND nothing
            # stored above the deepest level (a coarse pixel left there is never demoted by the next without/intersect)
            differs = bool(cf) or cl[s.depth] != exp
            coarse_left = any(len(x) for d, x in levels.items() if d < s.depth)
            stale = differs or coarse_left
            o.count('cache_nonempty_states')
            if differs:
                o.count('cache_stale_states')
            elif coarse_left:
                o.count('cache_valid_but_coarse_pixels_undemoted_states')
            if stale:
                if s.stale_cause is None:
                    s.stale_cause = self.label(rec)
                    o.count('cache_went_stale_at_' + s.stale_cause)
            else:
                s.stale_cause = None
        else:
            s.stale_cause = None
        if not (self.probe_clone and s.probe):
            return
        # ---- what would the region answer now?  asked of a clone
        ra, dec, expw = self.probes(s)
        n0 = len(expw)
        sra, sdec, sexp = self.seams(s, 'rad')
        dra, ddec, dexp = self.seams(s, 'deg')
        ra, dec, expw = np.append(ra, sra), np.append(dec, sdec), np.append(expw, sexp)
        model_area = hs.set_area(len(s.model), s.depth)
        with muted():
            c = copy.deepcopy(r)
            try:
                a0 = c.get_area()
                w0 = np.array(c.sky_within(ra, dec))
                d0 = c.get_demoted()
                d0l, d0f = hs.to_levels({s.depth: set(d0)})
                a1 = c.get_area()
                w1 = np.array(c.sky_within(np.append(np.degrees(ra[:n0]), dra), np.append(np.degrees(dec[:n0]), ddec),
                                           degin=True))
                lv2, fr2, pr2 = check_invariant(c)
            except Exception as e:
                self.violate('raises', {'exc_type': type(e).__name__, 'exc': repr(e)[:300],
                                        'tb': traceback.format_exc()[-900:], 'where': 'queries on a clone'}, rec, i)
                self.dead = True
                return
        o.count('probe_clones')
        o.count('sky_within_probes_judged', len(expw) + len(w1))
        tol = AREA_RTOL * max(model_area, 1e-30)
        if not s.optout:
            o.worst('area_rel_err', abs(a0 - model_area) / model_area if model_area > 0 else abs(a0))
        bad = False
        if d0f or d0l[s.depth] != s.model:
            self.violate('probe_get_demoted', self.diff(d0l[s.depth], s.model, stale_before, frac=d0f), rec, i)
            bad = True
        if not np.array_equal(w0, expw):
            j = int(np.flatnonzero(w0 != expw)[0])
            self.violate('probe_sky_within', {'ra_dec_rad': [ra[j], dec[j]], 'sky_within': bool(w0[j]),
                                              'model': bool(expw[j]), 'n_wrong': int((w0 != expw).sum()),
                                              'stale_before_op': stale_before}, rec, i)
            bad = True
        if s.optout:
            o.count('area_not_judged_renorm_opted_out')
        elif not abs(a0 - model_area) <= tol:
            self.violate('probe_get_area', {'get_area': a0, 'model_area': model_area,
                                            'ratio': a0 / model_area if model_area else None}, rec, i)
        if not s.optout and not abs(a1 - a0) <= AREA_RTOL * max(abs(a0), 1e-30):
            o.count('query_changed_area')
            self.violate('probe_query_changes_area', {'area_before_queries': a0, 'area_after_queries': a1,
                                                      'model_area': model_area}, rec, i)
        if not np.array_equal(w1[:n0], w0[:n0]):
            self.violate('probe_query_changes_membership', {'n_changed': int((w1[:n0] != w0[:n0]).sum()),
                                                            'stale_before_op': stale_before}, rec, i)
            bad = True
        if not np.array_equal(w1[n0:], dexp):
            j = int(np.flatnonzero(w1[n0:] != dexp)[0])
            self.violate('probe_sky_within', {'ra_dec_deg': [dra[j], ddec[j]], 'degin': True, 'exact_seam_position': True,
                                              'sky_within': bool(w1[n0 + j]), 'model': bool(dexp[j]),
                                              'n_wrong': int((w1[n0:] != dexp).sum()), 'stale_before_op': stale_before},
                         rec, i)
            bad = True
        if fr2 or any(p['kind'] != 'ancestor_and_descendant_stored' for p in pr2):
            self.violate('id_not_integer' if fr2 else 'id_out_of_range',
                         {'fractional_ids': fr2[:6], 'problems': pr2[:3], 'where': 'after queries on a clone'}, rec, i)
            bad = True
        if bad:
            self.dead = True

    @staticmethod
    def diff(got, model, stale_before=None, frac=None):
        miss = sorted(model - got)
        extra = sorted(got - model)
        d = {'n_missing_from_region': len(miss), 'n_extra_in_region': len(extra), 'missing': miss[:6], 'extra': extra[:6],
             'stale_before_op': stale_before}
        if frac:
            d['fractional_ids'] = frac[:6]
        return d

    # ------------------------------------------------------------------ operations
    def do(self, rec):
        """execute one explicit op record; returns False when the history must stop"""
        import healpy as hp
        if self.dead:
            return False
        o = self.o
        op = rec['op']
        i = rec['t']
        s = self.pool[i]
        r = s.region
        M = s.depth
        rec = dict(rec, t_depth=M)
        touched = [i]
        stale_before = s.stale_cause
        before = len(s.model)
        o.count('op_' + op)
        ok = True
        if op == 'add_circles':
            dd = rec.get('depth')
            de = M if (dd is None or dd > M) else dd
            ras, decs, rads = rec['ra'], rec['dec'], rec['r']
            add = set()
            for v, rad in zip(vec_of(ras, decs), rads):
                add |= hs.change_depth(set(int(p) for p in hp.query_disc(2 ** de, v, rad, inclusive=True, nest=True)),
                                       de, M)
            if rec.get('scalar'):
                args = (float(ras[0]), float(decs[0]), float(rads[0]))
            else:
                args = (list(ras), list(decs), list(rads))
            self.hist.append(self.compact(rec))
            ok, _ = self.subject(rec, i, r.add_circles, *args, **({} if dd is None else {'depth': dd}))
            s.model |= add
            s.queried = False
            s.optout = False
        elif op == 'add_poly':
            dd = rec.get('depth')
            de = M if (dd is None or dd > M) else dd
            pos = rec['pos']
            ras, decs = zip(*pos)
            pix = hp.query_polygon(2 ** de, vec_of(ras, decs), inclusive=True, nest=True)
            self.hist.append(self.compact(rec))
            ok, _ = self.subject(rec, i, r.add_poly, [list(p) for p in pos], **({} if dd is None else {'depth': dd}))
            s.model |= hs.change_depth(set(int(p) for p in pix), de, M)
            s.queried = False
            s.optout = False
        elif op == 'add_pixels':
            dd = rec['depth']
            pix = [int(p) for p in rec['pix']]
            kind = rec.get('as', 'list')
            arg = {'list': pix, 'ndarray': np.array(pix, dtype=np.int64), 'set': set(pix),
                   'int': pix[0]}[kind]
            lab = self.label(rec)
            o.count('op_' + lab)
            if dd < M:
                o.count(lab + '_coarse')
                if s.queried and len(r.demoted):
                    o.count(('bare_add_pixels' if not rec.get('renorm') else 'renorm_add_pixels') + '_coarse_after_query')
            self.hist.append(self.compact(rec))
            if rec.get('optout'):
                # the documented deferred mode: the caller takes charge of the normal form
                if dd < M and s.queried and len(r.demoted):
                    o.count('renorm_false_add_pixels_coarse_after_query')
                ok, _ = self.subject(rec, i, lambda: r.add_pixels(arg, dd, renorm=False))
                s.optout = True
            elif rec.get('renorm'):
                # the pair MIMAS itself uses: add_pixels then _renorm; judged after the pair
                _Mon.defer += 1
                try:
                    ok, _ = self.subject(rec, i, r.add_pixels, arg, dd)
                finally:
                    _Mon.defer -= 1
                if ok:
                    ok, _ = self.subject(rec, i, r._renorm)
                    s.queried = False
                s.optout = False
            else:
                ok, _ = self.subject(rec, i, r.add_pixels, arg, dd)
                s.optout = False        # add_pixels renormalises by default
            s.model |= hs.change_depth(set(pix), dd, M)
        elif op in ('union', 'without', 'intersect', 'symmetric_difference'):
            j = rec['o']
            t = self.pool[j]
            rec['o_depth'] = t.depth
            touched.append(j)
            if j == i:
                o.count('op_self_operand')
            if t.name == 'empty':
                o.count('op_empty_operand')
            if t.name == 'whole':
                o.count('op_whole_sky_operand')
            if op == 'union':
                o.count('op_union_' + ('equal' if t.depth == M else 'finer' if t.depth > M else 'coarser'))
                other = hs.change_depth(t.model, t.depth, M)
                new = s.model | other
            else:
                if t.depth != M:
                    raise RuntimeError('harness: %s needs equal depths (documented requirement)' % op)
                other = set(t.model)
                new = {'without': s.model - other, 'intersect': s.model & other,
                       'symmetric_difference': s.model ^ other}[op]
            self.hist.append(self.compact(rec))
            if op == 'union' and rec.get('optout'):
                o.count('op_union_renorm_false')
                if s.queried and len(r.demoted) and any(len(x) for d, x in t.region.pixeldict.items() if d < M):
                    o.count('union_renorm_false_with_coarse_pixels_after_query')
                ok, _ = self.subject(rec, i, lambda: r.union(t.region, renorm=False))
                s.optout = True
            else:
                ok, _ = self.subject(rec, i, getattr(r, op), t.region)
                s.queried = False
                s.optout = False
            s.model = new
            if op != 'union':
                t.queried = True
        elif op == 'sky_within':
            ra, dec, expw = self.probes(s, n=rec.get('n', 24))
            self.hist.append(self.compact(rec))
            form = rec.get('form', 'array')
            if form == 'scalar':
                ok, res = self.subject(rec, i, r.sky_within, float(ra[0]), float(dec[0]))
                ra, dec, expw = ra[:1], dec[:1], expw[:1]
            elif form == 'deg':
                ok, res = self.subject(rec, i, r.sky_within, list(np.degrees(ra)), list(np.degrees(dec)), True)
            elif form == 'nan':
                ra = np.append(ra, [np.nan, 1.0])
                dec = np.append(dec, [0.1, np.nan])
                expw = np.append(expw, [False, False])
                ok, res = self.subject(rec, i, r.sky_within, ra, dec)
            elif form in ('seams_rad', 'seams_deg'):
                # exact poles / seams, as a vector together with ordinary interior positions
                unit = form[-3:]
                sra, sdec, sexp = self.seams(s, unit)
                if unit == 'deg':
                    ra, dec = np.degrees(ra), np.degrees(dec)
                ra, dec, expw = np.append(sra, ra), np.append(sdec, dec), np.append(sexp, expw)
                ok, res = self.subject(rec, i, r.sky_within, list(ra), list(dec), unit == 'deg')
            elif form in ('pole_scalar_rad', 'pole_scalar_deg'):
                unit = form[-3:]
                sra, sdec, sexp = self.seams(s, unit)
                polar = np.flatnonzero(np.abs(sdec) == (90.0 if unit == 'deg' else np.pi / 2))
                if polar.size == 0:
                    o.count('pole_scalar_undetermined')
                    ok, res, expw = True, np.zeros(0, dtype=bool), np.zeros(0, dtype=bool)
                else:
                    j = int(polar[int(self.prng.integers(0, polar.size))])
                    o.count('pole_scalar_calls')
                    ok, res = self.subject(rec, i, r.sky_within, float(sra[j]), float(sdec[j]), unit == 'deg')
                    expw = sexp[j:j + 1]
            else:
                sra, sdec, sexp = self.seams(s, 'rad')
                ra, dec, expw = np.append(ra, sra), np.append(dec, sdec), np.append(expw, sexp)
                ok, res = self.subject(rec, i, r.sky_within, ra, dec)
            s.queried = True
            if ok:
                res = np.atleast_1d(np.array(res))
                o.count('sky_within_probes_judged', len(expw))
                if res.shape != expw.shape or not np.array_equal(res.astype(bool), expw):
                    nw = int((res.astype(bool) != expw).sum()) if res.shape == expw.shape else -1
                    self.violate('sky_within_vs_model', {'n_wrong': nw, 'n_probes': len(expw), 'form': form,
                                                         'stale_before_op': stale_before}, rec, i)
                    self.dead = True
        elif op == 'get_demoted':
            self.hist.append(self.compact(rec))
            ok, res = self.subject(rec, i, r.get_demoted)
            s.queried = True
            if ok:
                dl, df = hs.to_levels({M: set(res)})
                o.count('get_demoted_judged')
                if df or dl[M] != s.model:
                    self.violate('get_demoted_vs_model', self.diff(dl[M], s.model, stale_before, frac=df), rec, i)
                    self.dead = True
        elif op == 'get_area':
            self.hist.append(self.compact(rec))
            deg = rec.get('degrees', True)
            ok, res = self.subject(rec, i, r.get_area, deg)
            if ok:
                ma = hs.set_area(len(s.model), M, degrees=deg)
                if s.optout:
                    o.count('get_area_not_judged_renorm_opted_out')
                else:
                    o.count('get_area_judged')
                if not s.optout and not abs(res - ma) <= AREA_RTOL * max(ma, 1e-30):
                    self.violate('get_area_vs_model', {'get_area': res, 'model_area': ma, 'degrees': deg}, rec, i)
        elif op == 'pickle':
            self.hist.append(self.compact(rec))
            self.nfile += 1
            path = os.path.join(self.workdir, 'r%d.mim' % self.nfile)
            saved, _ = hs.to_levels(dict((d, set(x)) for d, x in r.pixeldict.items()))
            ok, _ = self.subject(rec, i, r.save, path)
            if ok:
                with muted():
                    ok, r2 = self.subject(rec, i, self.Region.load, path)
            if ok:
                loaded, lf = hs.to_levels(dict((d, set(x)) for d, x in r2.pixeldict.items()))
                same = (not lf) and r2.maxdepth == M and \
                    dict((d, x) for d, x in loaded.items() if x) == dict((d, x) for d, x in saved.items() if x)
                o.count('reload_judged')
                if not same:
                    self.violate('reload_differs', {'maxdepth_loaded': r2.maxdepth}, rec, i)
                    self.dead = True
                self.old_ids[id(r)] = i
                self.keep.append(r)
                s.region = r2
            try:
                os.remove(path)
            except OSError:
                pass
        else:
            raise RuntimeError('harness: unknown op %r' % op)
        if len(s.model) != before:
            self.changed = True
        if not ok:
            return False
        self.drain_events(rec)
        if self.dead:
            return False
        for j in dict.fromkeys(touched):
            self.judge(j, rec, stale_before if j == i else self.pool[j].stale_cause)
            if self.dead:
                break
        o.count('steps_judged')
        o.n_eval += 1
        return not self.dead


# =============================================================================================== workloads
def _resol(M):
    return float(np.sqrt(4 * np.pi / hs.npix(M)))


ALPHABET = ['circle1', 'circle2', 'poly', 'pix_coarse_bare', 'pix_coarse_renorm', 'pix_deep_bare', 'pix_deep_renorm',
            'union_equal', 'union_finer', 'union_coarser', 'without', 'intersect', 'symdiff', 'sky_within',
            'get_demoted', 'get_area', 'pickle', 'pix_coarse_norenorm', 'union_equal_norenorm', 'union_coarser_norenorm']


def _exhaustive_setup(M):
    """prototype operand regions + the explicit op record of every letter, for target depth M (slot 0)"""
    import healpy as hp
    c1 = (0.7, 0.35)
    c2 = (1.0, 0.2)
    p1 = int(hp.ang2pix(2 ** M, np.pi / 2 - c1[1], c1[0], nest=True))
    p2 = int(hp.ang2pix(2 ** M, np.pi / 2 - c2[1], c2[0], nest=True))
    q = p2 >> 2
    deep = [4 * q, 4 * q + 1, 4 * q + 2, 4 * q + 3, 4 * (q ^ 1), 4 * (q ^ 1) + 2]
    recs = {
        'circle1': {'op': 'add_circles', 't': 0, 'ra': [c1[0]], 'dec': [c1[1]], 'r': [0.25], 'scalar': True},
        'circle2': {'op': 'add_circles', 't': 0, 'ra': [c2[0], 0.5], 'dec': [c2[1], 0.4], 'r': [0.12, 0.05]},
        'poly': {'op': 'add_poly', 't': 0, 'pos': [[0.6, 0.2], [0.9, 0.2], [0.9, 0.45], [0.6, 0.45]]},
        'pix_coarse_bare': {'op': 'add_pixels', 't': 0, 'pix': [p1 >> 2], 'depth': M - 1, 'renorm': False},
        'pix_coarse_renorm': {'op': 'add_pixels', 't': 0, 'pix': [p1 >> 2], 'depth': M - 1, 'renorm': True,
                              'as': 'ndarray'},
        'pix_deep_bare': {'op': 'add_pixels', 't': 0, 'pix': deep, 'depth': M, 'renorm': False, 'as': 'ndarray'},
        'pix_deep_renorm': {'op': 'add_pixels', 't': 0, 'pix': deep, 'depth': M, 'renorm': True},
        'union_equal': {'op': 'union', 't': 0, 'o': 1},
        'union_finer': {'op': 'union', 't': 0, 'o': 2},
        'union_coarser': {'op': 'union', 't': 0, 'o': 3},
        # the public renorm=False mode (deferred renormalisation)
        'pix_coarse_norenorm': {'op': 'add_pixels', 't': 0, 'pix': [p1 >> 2], 'depth': M - 1, 'optout': True},
        'union_equal_norenorm': {'op': 'union', 't': 0, 'o': 1, 'optout': True},
        'union_coarser_norenorm': {'op': 'union', 't': 0, 'o': 3, 'optout': True},
        'without': {'op': 'without', 't': 0, 'o': 4},
        'intersect': {'op': 'intersect', 't': 0, 'o': 5},
        'symdiff': {'op': 'symmetric_difference', 't': 0, 'o': 1},
        'sky_within': {'op': 'sky_within', 't': 0},
        'get_demoted': {'op': 'get_demoted', 't': 0},
        'get_area': {'op': 'get_area', 't': 0},
        'pickle': {'op': 'pickle', 't': 0},
    }
    # operands: (name, depth, construction op)
    operands = [
        ('E', M, {'op': 'add_circles', 'ra': [0.85], 'dec': [0.3], 'r': [0.15]}),
        ('F', M + 2, {'op': 'add_circles', 'ra': [0.8], 'dec': [0.25], 'r': [0.1]}),
        # the coarser operand of a depth-2 target has depth 1: built by the plain insertion (nothing else works on it
        # while _demote_all cannot handle maxdepth=1, which is judged by its own targeted case)
        ('C', M - 1, {'op': 'add_pixels', 'pix': [p1 >> 2, (p2 >> 2) ^ 3], 'depth': M - 1, 'renorm': False}
         if M - 1 < 2 else {'op': 'add_circles', 'ra': [0.6], 'dec': [0.4], 'r': [0.2]}),
        ('W', M, {'op': 'add_circles', 'ra': [0.7], 'dec': [0.35], 'r': [0.12]}),
        ('I', M, {'op': 'add_circles', 'ra': [0.8], 'dec': [0.3], 'r': [0.3]}),
    ]
    return recs, operands


def run_exhaustive(case, o, workdir):
    M = case['depth']
    L = case['length']
    first = case['first']
    recs, operands = _exhaustive_setup(M)
    prng = rng_for(0, 'exh-probes', M, first)
    # operands are built (and judged) once, then cloned for every sequence
    h0 = History(o, workdir, prng)
    h0.new_slot(M, 'T')
    for name, d, rec in operands:
        # a depth-1 operand is only ever *read* by union; its own answers are the business of the maxdepth_1 scripts
        k = h0.new_slot(d, name, probe=d >= 2)
        if not h0.do(dict(rec, t=k)):
            o.sample = {'setup_failed_at': name}
            return
    nseq = 0
    nchanged = 0
    for tail in itertools.product(ALPHABET, repeat=L - 1):
        seq = (first,) + tail
        h = History(o, workdir, prng)
        with muted():
            for s0 in h0.pool:
                k = h.adopt(copy.deepcopy(s0.region), s0.model, s0.name, probe=s0.probe)
        for name in seq:
            if not h.do(recs[name]):
                break
        nseq += 1
        nchanged += bool(h.changed)
    o.count('exhaustive_sequences', nseq)
    o.n_nontrivial += nchanged
    o.sample = {'depth': M, 'first': first, 'sequences': nseq, 'changed_model': nchanged,
                'last_sequence': list(seq), 'last_model_size': len(h.pool[0].model)}


def _gen_pixels(rng, s, M):
    """state-aware choice of an add_pixels argument for slot s: -> (pix list, level)"""
    mode = rng.choice(['parent_of_member', 'siblings', 'random', 'random_coarse', 'cascade'])
    mem = s.model
    some = list(itertools.islice(iter(mem), 0, 2000))
    if mode == 'parent_of_member' and some and M > 1:
        dd = int(rng.integers(max(1, M - 3), M))
        pix = [some[int(x)] >> (2 * (M - dd)) for x in rng.integers(0, len(some), int(rng.integers(1, 4)))]
    elif mode == 'siblings' and some:
        dd = M
        p = some[int(rng.integers(0, len(some)))]
        pix = [(p & ~3) + x for x in range(4) if (p & ~3) + x != p or rng.random() < 0.5]
    elif mode == 'cascade' and some and M >= 3:
        # fifteen of the sixteen grandchildren-level cells around a member: renorm must merge twice
        dd = M
        p = some[int(rng.integers(0, len(some)))]
        base = (p >> 4) << 4
        pix = [base + x for x in range(16)]
    elif mode == 'random_coarse' and M > 1:
        dd = int(rng.integers(1, M))
        pix = [int(x) for x in rng.integers(0, hs.npix(dd), int(rng.integers(1, 4)))]
    else:
        dd = int(rng.integers(1, M + 1))
        pix = [int(x) for x in rng.integers(0, hs.npix(dd), int(rng.integers(1, 6)))]
    # keep the deepest-level size bounded
    if len(pix) * 4 ** (M - dd) > 30000:
        dd = M
        pix = [int(x) for x in rng.integers(0, hs.npix(dd), 3)]
    return sorted(set(pix)), dd


def _gen_circle(rng, anchor, M, scale=1.0):
    res = _resol(M)
    ra0, dec0 = anchor
    n = int(rng.integers(1, 3))
    ra = [float((ra0 + rng.normal(0, 6 * res) / max(np.cos(dec0), 0.05)) % (2 * np.pi)) for _ in range(n)]
    dec = [float(np.clip(dec0 + rng.normal(0, 6 * res), -np.pi / 2, np.pi / 2)) for _ in range(n)]
    rmax = min(14 * res * scale, 0.6)
    r = [float(rng.uniform(0.3 * res, rmax)) for _ in range(n)]
    return ra, dec, r


def _gen_poly(rng, anchor, M):
    from aegmon.refs import sphere
    res = _resol(M)
    ra0, dec0 = anchor
    dec0 = float(np.clip(dec0, -1.2, 1.2))
    n = int(rng.integers(3, 7))
    az = np.sort(rng.uniform(0, 360, n))
    if np.max(np.diff(np.append(az, az[0] + 360))) > 170:       # keep the centre inside: convex and well shaped
        az = np.linspace(0, 360, n, endpoint=False) + rng.uniform(0, 360)
    rad = np.degrees(min(rng.uniform(2, 12) * res, 0.5))
    ra, dec = sphere.destination(np.full(n, np.degrees(ra0)), np.full(n, np.degrees(dec0)), np.full(n, rad), az)
    if rng.random() < 0.5:
        ra, dec = ra[::-1], dec[::-1]
    return [[float(np.radians(a) % (2 * np.pi)), float(np.radians(d))] for a, d in zip(ra, dec)]


def run_random(case, o, workdir, length=None, return_history=False):
    import healpy as hp
    rng = rng_for(*case['seed'])
    M = case['depth']
    L = length or case['length']
    h = History(o, workdir, rng_for(*(list(case['seed']) + ['probes'])))
    # anchor: sometimes at a pole or on the RA=0 meridian
    u = rng.random()
    if u < 0.05:
        anchor = (float(rng.uniform(0, 2 * np.pi)), float(rng.choice([-1, 1]) * np.pi / 2))      # exactly a pole
    elif u < 0.15:
        anchor = (float(rng.uniform(0, 2 * np.pi)), float(rng.choice([-1, 1]) * (np.pi / 2 - rng.uniform(0, 2) * _resol(M))))
    elif u < 0.25:
        anchor = (float(rng.uniform(-1, 1) * _resol(M) % (2 * np.pi)), float(np.arcsin(rng.uniform(-0.9, 0.9))))
    else:
        anchor = (float(rng.uniform(0, 2 * np.pi)), float(np.arcsin(rng.uniform(-1, 1))))
    T = h.new_slot(M, 'T')
    E1 = h.new_slot(M, 'E1')
    E2 = h.new_slot(M, 'E2')
    dF = min(M + int(rng.integers(1, 4)), 12)
    # depth-1 regions are fully exercised by the maxdepth_1 scripts; here only now and then, so that one mechanism
    # (nothing works on maxdepth=1) cannot hide the rest of the histories
    dC = max(M - int(rng.integers(1, 4)), 1 if rng.random() < 0.1 else 2)
    F = h.new_slot(dF, 'F') if dF > M else None
    C = h.new_slot(dC, 'C') if dC < M else None
    EMPTY = h.new_slot(M, 'empty')
    WHOLE = None
    if M <= case.get('whole_max', 6):
        WHOLE = h.new_slot(M, 'whole')
        lvl = int(rng.integers(1, M + 1))
        h.do({'op': 'add_pixels', 't': WHOLE, 'pix': list(range(hs.npix(lvl))), 'depth': lvl, 'renorm': True,
              'as': 'ndarray'})
    for k in (E1, E2, F, C):
        if k is None:
            continue
        d = h.pool[k].depth
        ra, dec, r = _gen_circle(rng, anchor, M, scale=0.7)
        h.do({'op': 'add_circles', 't': k, 'ra': ra, 'dec': dec, 'r': r})
    mutable = [k for k in (T, E1, E2, F, C) if k is not None]
    nops = 0
    guard = 0
    while nops < L and not h.dead and guard < 10 * L:
        guard += 1
        t = T if rng.random() < 0.7 else int(rng.choice(mutable))
        s = h.pool[t]
        Mt = s.depth
        if rng.random() < 0.4:
            q = rng.choice(['sky_within', 'get_demoted', 'get_area'])
            rec = {'op': str(q), 't': t}
            if q == 'sky_within':
                rec['form'] = str(rng.choice(['array', 'array', 'deg', 'scalar', 'nan', 'seams_rad', 'seams_deg',
                                              'pole_scalar_rad', 'pole_scalar_deg']))
            if q == 'get_area':
                rec['degrees'] = bool(rng.random() < 0.7)
        else:
            kind = rng.choice(['add_circles', 'add_poly', 'add_pixels', 'add_pixels', 'add_pixels_renorm',
                               'add_pixels_renorm', 'union', 'union', 'union', 'without', 'without', 'intersect',
                               'symmetric_difference', 'pickle', 'add_pixels_norenorm', 'union_norenorm',
                               'union_norenorm'])
            if kind == 'add_circles':
                ra, dec, r = _gen_circle(rng, anchor, Mt if Mt <= M else M)
                rec = {'op': 'add_circles', 't': t, 'ra': ra, 'dec': dec, 'r': r}
                if len(ra) == 1 and rng.random() < 0.5:
                    rec['scalar'] = True
                if rng.random() < 0.3:
                    rec['depth'] = int(rng.integers(max(1, Mt - 2), Mt + 2))
            elif kind == 'add_poly':
                rec = {'op': 'add_poly', 't': t, 'pos': _gen_poly(rng, anchor, min(Mt, M))}
                if rng.random() < 0.3:
                    rec['depth'] = int(rng.integers(max(1, Mt - 2), Mt + 2))
                try:      # healpy itself must accept the polygon (C09's business, not ours)
                    ras, decs = zip(*rec['pos'])
                    hp.query_polygon(2 ** Mt, vec_of(ras, decs), inclusive=True, nest=True)
                    if 'depth' in rec:
                        hp.query_polygon(2 ** min(rec['depth'], Mt), vec_of(ras, decs), inclusive=True, nest=True)
                except Exception:
                    o.count('generator_rejected_polygon')
                    continue
            elif kind in ('add_pixels', 'add_pixels_renorm', 'add_pixels_norenorm'):
                pix, dd = _gen_pixels(rng, s, Mt)
                rec = {'op': 'add_pixels', 't': t, 'pix': pix, 'depth': dd, 'renorm': kind.endswith('_renorm'),
                       'as': str(rng.choice(['list', 'ndarray', 'set']))}
                if kind == 'add_pixels_norenorm':
                    rec['optout'] = True
            elif kind == 'pickle':
                rec = {'op': 'pickle', 't': t}
            else:
                optout = kind == 'union_norenorm'
                if optout:
                    kind = 'union'
                if kind == 'union':
                    cands = [k for k in (T, E1, E2, F, C, EMPTY, WHOLE, t) if k is not None]
                    w = np.array([1.0 if h.pool[k].depth == Mt else 2.0 for k in cands])
                    j = int(rng.choice(cands, p=w / w.sum()))
                else:
                    cands = [k for k in (T, E1, E2, EMPTY, WHOLE, t, F, C) if k is not None and h.pool[k].depth == Mt]
                    j = int(rng.choice(cands))
                rec = {'op': str(kind), 't': t, 'o': j}
                if optout:
                    rec['optout'] = True
                # size guard on the result (a whole-sky operand united into a finer region would be 12*4**9 pixels)
                if kind in ('union', 'symmetric_difference') and \
                        len(h.pool[j].model) * 4 ** max(0, Mt - h.pool[j].depth) > MAX_PIX:
                    o.count('generator_size_cap')
                    continue
        if len(s.model) > MAX_PIX:
            o.count('generator_size_cap')
            break
        h.do(rec)
        nops += 1
    o.count('random_histories')
    o.worst('history_length', nops)
    if h.changed:
        o.n_nontrivial += 1
    o.sample = {'depth': M, 'ops': [dict((k, v) for k, v in r.items() if k not in ('pix', 'pos', 'ra', 'dec', 'r'))
                                    for r in h.hist[-14:]],
                'final': h.slot_summary(h.pool[T])}
    if return_history:
        return h
    return None


TARGETED = {
    # D14: union with a finer region
    'finer_union': {'depth': 3, 'pool': [3, 5], 'ops': [
        {'op': 'add_circles', 't': 1, 'ra': [1.0], 'dec': [0.3], 'r': [0.05]},
        {'op': 'union', 't': 0, 'o': 1}, {'op': 'get_demoted', 't': 0}, {'op': 'get_area', 't': 0}]},
    # D15: a coarse pixel added after a query must be seen by the next query and by without
    'coarse_after_query': {'depth': 4, 'pool': [4, 4], 'ops': [
        {'op': 'add_circles', 't': 0, 'ra': [1.0], 'dec': [0.3], 'r': [0.1]},
        {'op': 'sky_within', 't': 0},
        {'op': 'add_pixels', 't': 0, 'pix': [100], 'depth': 2, 'renorm': False},
        {'op': 'sky_within', 't': 0}, {'op': 'get_demoted', 't': 0},
        {'op': 'add_pixels', 't': 1, 'pix': [100], 'depth': 2, 'renorm': True},
        {'op': 'without', 't': 0, 'o': 1}, {'op': 'get_area', 't': 0}]},
    # the deferred mode: query -> union(renorm=False) with an operand holding coarse pixels -> query -> without
    'query_union_norenorm_query_without': {'depth': 4, 'pool': [4, 4, 4, 4], 'ops': [
        {'op': 'add_circles', 't': 0, 'ra': [1.0], 'dec': [0.3], 'r': [0.1]},
        {'op': 'add_circles', 't': 1, 'ra': [3.0], 'dec': [-0.2], 'r': [0.35]},        # wide: normal form has coarse pixels
        {'op': 'add_pixels', 't': 2, 'pix': [100, 7], 'depth': 2, 'renorm': True},
        {'op': 'sky_within', 't': 0},
        {'op': 'union', 't': 0, 'o': 1, 'optout': True},
        {'op': 'sky_within', 't': 0}, {'op': 'get_demoted', 't': 0}, {'op': 'get_area', 't': 0},
        {'op': 'without', 't': 0, 'o': 1}, {'op': 'get_demoted', 't': 0}, {'op': 'get_area', 't': 0},
        {'op': 'get_demoted', 't': 0},
        {'op': 'union', 't': 0, 'o': 2, 'optout': True}, {'op': 'get_demoted', 't': 0},
        {'op': 'symmetric_difference', 't': 0, 'o': 2}, {'op': 'sky_within', 't': 0}, {'op': 'get_area', 't': 0},
        {'op': 'sky_within', 't': 3},
        {'op': 'union', 't': 3, 'o': 1, 'optout': True}, {'op': 'intersect', 't': 3, 'o': 2},
        {'op': 'get_demoted', 't': 3}]},
    'query_add_pixels_norenorm_query_without': {'depth': 4, 'pool': [4, 4], 'ops': [
        {'op': 'add_circles', 't': 0, 'ra': [1.0], 'dec': [0.3], 'r': [0.1]},
        {'op': 'add_pixels', 't': 1, 'pix': [100], 'depth': 2, 'renorm': True},
        {'op': 'get_demoted', 't': 0},
        {'op': 'add_pixels', 't': 0, 'pix': [100], 'depth': 2, 'optout': True},
        {'op': 'sky_within', 't': 0}, {'op': 'get_demoted', 't': 0},
        {'op': 'add_pixels', 't': 0, 'pix': [1600, 25], 'depth': 4, 'optout': True},     # 1600@4 lies inside 100@2
        {'op': 'get_area', 't': 0}, {'op': 'sky_within', 't': 0},
        {'op': 'without', 't': 0, 'o': 1}, {'op': 'get_demoted', 't': 0}, {'op': 'get_area', 't': 0}]},
    # regions that own the polar cells, queried at the exact poles and seams (scalar, vector, radians, degrees)
    'polar_caps_and_seams': {'depth': 5, 'pool': [5, 5, 5], 'ops': [
        {'op': 'add_circles', 't': 0, 'ra': [0.3], 'dec': [np.pi / 2], 'r': [0.2]},
        {'op': 'sky_within', 't': 0, 'form': 'seams_deg'}, {'op': 'sky_within', 't': 0, 'form': 'seams_rad'},
        {'op': 'sky_within', 't': 0, 'form': 'pole_scalar_deg'}, {'op': 'sky_within', 't': 0, 'form': 'pole_scalar_rad'},
        {'op': 'add_circles', 't': 0, 'ra': [2.0], 'dec': [-np.pi / 2], 'r': [0.3]},
        {'op': 'sky_within', 't': 0, 'form': 'seams_deg'}, {'op': 'sky_within', 't': 0, 'form': 'pole_scalar_deg'},
        {'op': 'sky_within', 't': 0, 'form': 'pole_scalar_rad'},
        {'op': 'add_pixels', 't': 1, 'pix': list(range(48)), 'depth': 1, 'renorm': True},
        {'op': 'sky_within', 't': 1, 'form': 'seams_deg'}, {'op': 'sky_within', 't': 1, 'form': 'seams_rad'},
        {'op': 'sky_within', 't': 1, 'form': 'pole_scalar_deg'},
        {'op': 'without', 't': 1, 'o': 0}, {'op': 'sky_within', 't': 1, 'form': 'seams_deg'},
        {'op': 'sky_within', 't': 1, 'form': 'pole_scalar_rad'},
        # the four deepest cells that touch each pole
        {'op': 'add_pixels', 't': 2, 'pix': [1023, 2047, 3071, 4095, 8192, 9216, 10240, 11264], 'depth': 5, 'renorm': True},
        {'op': 'sky_within', 't': 2, 'form': 'seams_deg'}, {'op': 'sky_within', 't': 2, 'form': 'pole_scalar_deg'},
        {'op': 'sky_within', 't': 2, 'form': 'pole_scalar_rad'}, {'op': 'get_demoted', 't': 2},
        {'op': 'intersect', 't': 2, 'o': 0}, {'op': 'sky_within', 't': 2, 'form': 'seams_rad'},
        {'op': 'sky_within', 't': 2, 'form': 'pole_scalar_deg'}]},
    'polar_caps_and_seams_deep': {'depth': 8, 'pool': [8, 8], 'ops': [
        {'op': 'add_circles', 't': 0, 'ra': [0.0, 1.0], 'dec': [np.pi / 2, -np.pi / 2], 'r': [0.01, 0.02]},
        {'op': 'sky_within', 't': 0, 'form': 'seams_deg'}, {'op': 'sky_within', 't': 0, 'form': 'pole_scalar_deg'},
        {'op': 'sky_within', 't': 0, 'form': 'pole_scalar_rad'}, {'op': 'pickle', 't': 0},
        {'op': 'sky_within', 't': 0, 'form': 'seams_rad'},
        {'op': 'add_pixels', 't': 1, 'pix': [0, 1, 2, 3, 32, 33, 34, 35], 'depth': 1, 'renorm': True},
        {'op': 'sky_within', 't': 1, 'form': 'seams_deg'}, {'op': 'sky_within', 't': 1, 'form': 'pole_scalar_deg'},
        {'op': 'union', 't': 0, 'o': 1}, {'op': 'sky_within', 't': 0, 'form': 'pole_scalar_rad'},
        {'op': 'sky_within', 't': 0, 'form': 'seams_deg'}]},
    # bare coarse insertion over existing content (parent of stored pixels), no query before
    'coarse_over_content': {'depth': 4, 'pool': [4], 'ops': [
        {'op': 'add_pixels', 't': 0, 'pix': [1600, 1601, 1700], 'depth': 4, 'renorm': True},
        {'op': 'add_pixels', 't': 0, 'pix': [100], 'depth': 2, 'renorm': False},
        {'op': 'get_area', 't': 0}, {'op': 'get_demoted', 't': 0}, {'op': 'get_area', 't': 0}]},
    # D16: the shallowest region
    'maxdepth_1': {'depth': 1, 'pool': [1, 1], 'ops': [
        {'op': 'add_pixels', 't': 0, 'pix': [3, 17], 'depth': 1, 'renorm': False},
        {'op': 'get_area', 't': 0}, {'op': 'get_demoted', 't': 0}, {'op': 'sky_within', 't': 0},
        {'op': 'add_circles', 't': 1, 'ra': [1.0], 'dec': [0.3], 'r': [0.4]},
        {'op': 'union', 't': 0, 'o': 1}, {'op': 'without', 't': 0, 'o': 1}, {'op': 'pickle', 't': 0},
        {'op': 'symmetric_difference', 't': 0, 'o': 1}, {'op': 'intersect', 't': 0, 'o': 1}]},
    'maxdepth_1_circles': {'depth': 1, 'pool': [1], 'ops': [
        {'op': 'add_circles', 't': 0, 'ra': [2.0], 'dec': [-0.3], 'r': [0.4]},
        {'op': 'add_poly', 't': 0, 'pos': [[0.6, 0.2], [0.9, 0.2], [0.9, 0.45], [0.6, 0.45]]},
        {'op': 'get_demoted', 't': 0}]},
    # docstring of add_pixels: "pix : int or iterable"
    'add_pixels_int': {'depth': 3, 'pool': [3], 'ops': [
        {'op': 'add_pixels', 't': 0, 'pix': [77], 'depth': 3, 'renorm': True, 'as': 'int'},
        {'op': 'get_demoted', 't': 0}]},
    'self_operands': {'depth': 5, 'pool': [5], 'ops': [
        {'op': 'add_circles', 't': 0, 'ra': [0.2], 'dec': [-0.9], 'r': [0.08]},
        {'op': 'union', 't': 0, 'o': 0}, {'op': 'intersect', 't': 0, 'o': 0},
        {'op': 'symmetric_difference', 't': 0, 'o': 0},
        {'op': 'add_circles', 't': 0, 'ra': [0.2], 'dec': [-0.9], 'r': [0.08]},
        {'op': 'sky_within', 't': 0}, {'op': 'without', 't': 0, 'o': 0}, {'op': 'get_area', 't': 0}]},
    'empty_operands': {'depth': 4, 'pool': [4, 4, 6, 2], 'names': ['T', 'empty', 'empty', 'empty'], 'ops': [
        {'op': 'union', 't': 0, 'o': 1}, {'op': 'without', 't': 0, 'o': 1}, {'op': 'sky_within', 't': 0},
        {'op': 'get_demoted', 't': 0}, {'op': 'get_area', 't': 0}, {'op': 'pickle', 't': 0},
        {'op': 'add_circles', 't': 0, 'ra': [0.0], 'dec': [1.5], 'r': [0.2]},
        {'op': 'union', 't': 0, 'o': 2}, {'op': 'union', 't': 0, 'o': 3}, {'op': 'symmetric_difference', 't': 0, 'o': 1},
        {'op': 'intersect', 't': 0, 'o': 1}, {'op': 'get_area', 't': 0}, {'op': 'intersect', 't': 1, 'o': 0}]},
    'whole_sky': {'depth': 4, 'pool': [4, 4, 2, 6], 'names': ['T', 'whole', 'whole', 'whole'], 'ops': [
        {'op': 'add_pixels', 't': 1, 'pix': list(range(48)), 'depth': 1, 'renorm': True},
        {'op': 'add_pixels', 't': 2, 'pix': list(range(192)), 'depth': 2, 'renorm': True},
        {'op': 'add_pixels', 't': 3, 'pix': list(range(12 * 4 ** 4)), 'depth': 4, 'renorm': True, 'as': 'ndarray'},
        {'op': 'get_area', 't': 1}, {'op': 'get_area', 't': 3},
        {'op': 'add_circles', 't': 0, 'ra': [3.0], 'dec': [0.0], 'r': [0.3]},
        {'op': 'intersect', 't': 0, 'o': 1}, {'op': 'symmetric_difference', 't': 0, 'o': 1},
        {'op': 'sky_within', 't': 0}, {'op': 'symmetric_difference', 't': 0, 'o': 1},
        {'op': 'union', 't': 0, 'o': 3}, {'op': 'get_area', 't': 0}, {'op': 'without', 't': 0, 'o': 1},
        {'op': 'union', 't': 0, 'o': 2}, {'op': 'get_demoted', 't': 0},
        {'op': 'add_circles', 't': 0, 'ra': [0.0], 'dec': [0.0], 'r': [4.0]}, {'op': 'get_area', 't': 0}]},
    # promotion cascade and its inverse
    'cascade': {'depth': 6, 'pool': [6, 6], 'ops': [
        {'op': 'add_pixels', 't': 0, 'pix': list(range(4096, 4096 + 255)), 'depth': 6, 'renorm': True},
        {'op': 'add_pixels', 't': 0, 'pix': [4096 + 255], 'depth': 6, 'renorm': True},
        {'op': 'get_area', 't': 0},
        {'op': 'add_pixels', 't': 1, 'pix': [4096 + 17], 'depth': 6, 'renorm': True},
        {'op': 'without', 't': 0, 'o': 1}, {'op': 'get_area', 't': 0}, {'op': 'sky_within', 't': 0},
        {'op': 'union', 't': 0, 'o': 1}, {'op': 'pickle', 't': 0}, {'op': 'get_area', 't': 0}]},
    'depth_arguments': {'depth': 7, 'pool': [7], 'ops': [
        {'op': 'add_circles', 't': 0, 'ra': [1.0], 'dec': [0.3], 'r': [0.1], 'depth': 4},
        {'op': 'add_circles', 't': 0, 'ra': [1.1], 'dec': [0.3], 'r': [0.02], 'depth': 9},
        {'op': 'add_poly', 't': 0, 'pos': [[1.0, 0.2], [1.2, 0.2], [1.1, 0.4]], 'depth': 5},
        {'op': 'sky_within', 't': 0, 'form': 'nan'}, {'op': 'sky_within', 't': 0, 'form': 'deg'},
        {'op': 'sky_within', 't': 0, 'form': 'scalar'}, {'op': 'get_area', 't': 0, 'degrees': False}]},
}


def run_script(case, o, workdir):
    sc = TARGETED[case['name']]
    h = History(o, workdir, rng_for(0, 'script', case['name']))
    names = sc.get('names') or ['T'] + ['R%d' % k for k in range(1, len(sc['pool']))]
    for d, n in zip(sc['pool'], names):
        h.new_slot(d, n)
    for rec in sc['ops']:
        if not h.do(dict(rec)):
            break
    if h.changed:
        o.n_nontrivial += 1
    o.count('targeted_scripts')
    o.sample = {'script': case['name'], 'executed': len(h.hist), 'of': len(sc['ops']),
                'final': h.slot_summary(h.pool[0])}


def run_combine(case, o, workdir):
    """MIMAS.combine_regions against the model applying the documented order:
    add regions, subtract regions, add circles, subtract circles, add polygons, subtract polygons."""
    import healpy as hp
    from AegeanTools import MIMAS
    rng = rng_for(*case['seed'])
    M = case['depth']
    # operand files come out of short random histories (judged as they run)
    sub = run_random({'seed': list(case['seed']) + ['sub'], 'depth': M, 'length': 5, 'whole_max': 0}, o, workdir,
                     return_history=True)
    if sub.dead:
        o.count('combine_skipped_dead_history')
        return
    h = sub
    anchor_slot = h.pool[1]
    if anchor_slot.model:
        p = next(iter(anchor_slot.model))
        th, ph = hp.pix2ang(2 ** M, p, nest=True)
        anchor = (float(ph), float(np.pi / 2 - th))
    else:
        anchor = (1.0, 0.2)
    files = {}
    for k, s in enumerate(h.pool):
        path = os.path.join(workdir, 'c%d.mim' % k)
        with muted():
            MIMAS.save_region(s.region, path)
        files[k] = path
    adds = [k for k, s in enumerate(h.pool) if s.name in ('T', 'E1', 'F', 'C')]
    rems = [k for k, s in enumerate(h.pool) if s.name in ('E2',)]
    if rng.random() < 0.3:
        rems.append(adds.pop(0))
    cont = MIMAS.Dummy(maxdepth=M)
    cont.add_region = [[files[k]] for k in adds]
    cont.rem_region = [[files[k]] for k in rems]
    model = set()
    for k in adds:
        model |= hs.change_depth(h.pool[k].model, h.pool[k].depth, M)
    for k in rems:
        model -= h.pool[k].model
    desc = {'add_region_depths': [h.pool[k].depth for k in adds], 'rem_region_depths': [h.pool[k].depth for k in rems]}

    def disc(ra, dec, r):
        return set(int(p) for p in hp.query_disc(2 ** M, vec_of([ra], [dec])[0], r, inclusive=True, nest=True))

    def poly(pos):
        ras, decs = zip(*pos)
        return set(int(p) for p in hp.query_polygon(2 ** M, vec_of(ras, decs), inclusive=True, nest=True))
    inc_c, exc_c, inc_p, exc_p = [], [], [], []
    for lst, n in ((inc_c, rng.integers(0, 3)), (exc_c, rng.integers(0, 3))):
        for _ in range(int(n)):
            ra, dec, r = _gen_circle(rng, anchor, M)
            # the container holds degrees; the model must see the very radians the code will compute
            cd = [float(np.degrees(ra[0])), float(np.degrees(dec[0])), float(np.degrees(r[0]))]
            lst.append(cd)
    for lst, n in ((inc_p, rng.integers(0, 2)), (exc_p, rng.integers(0, 2))):
        for _ in range(int(n)):
            pos = _gen_poly(rng, anchor, M)
            flat = []
            for a, d in pos:
                flat += [float(np.degrees(a)), float(np.degrees(d))]
            try:
                rad = np.radians(np.array(flat)).reshape((len(flat) // 2, 2))
                poly([tuple(x) for x in rad])
            except Exception:
                o.count('generator_rejected_polygon')
                continue
            lst.append(flat)
    for cd in inc_c:
        a, d, r = np.radians(np.array(cd))
        model |= disc(a, d, r)
    for cd in exc_c:
        a, d, r = np.radians(np.array(cd))
        model -= disc(a, d, r)
    for flat in inc_p:
        rad = np.radians(np.array(flat)).reshape((len(flat) // 2, 2))
        model |= poly([tuple(x) for x in rad])
    for flat in exc_p:
        rad = np.radians(np.array(flat)).reshape((len(flat) // 2, 2))
        model -= poly([tuple(x) for x in rad])
    cont.include_circles, cont.exclude_circles = inc_c, exc_c
    cont.include_polygons, cont.exclude_polygons = inc_p, exc_p
    desc.update(n_include_circles=len(inc_c), n_exclude_circles=len(exc_c), n_include_polygons=len(inc_p),
                n_exclude_polygons=len(exc_p))
    rec = {'op': 'combine_regions', 't': None, 'container': desc}
    h.hist.append(rec)
    try:
        res = MIMAS.combine_regions(cont)
    except Exception as e:
        h.violate('raises', {'exc_type': type(e).__name__, 'exc': repr(e)[:300], 'tb': traceback.format_exc()[-900:],
                             'operand_depth': min(desc['add_region_depths'] + [99])}, rec, None)
        return
    k = h.adopt(res, model, 'combined')
    rec['t'] = k
    h.drain_events(rec, in_combine={'in_combine': True,
                                    'finer_add_region': any(d > M for d in desc['add_region_depths'])})
    if not h.dead:
        h.judge(k, rec)
    o.count('combine_regions_judged')
    o.n_eval += 1
    o.n_nontrivial += 1 if model else 0
    # the CLI's --area on the saved result
    if not h.dead:
        from AegeanTools.CLI import MIMAS as cli
        path = os.path.join(workdir, 'combined.mim')
        with muted():
            MIMAS.save_region(res, path)
        buf = io.StringIO()
        try:
            with muted(), contextlib.redirect_stdout(buf):
                rc = cli.main(['--area', path])
        except Exception as e:
            h.violate('raises', {'exc_type': type(e).__name__, 'exc': repr(e)[:300],
                                 'tb': traceback.format_exc()[-900:], 'where': 'MIMAS --area'}, rec, k)
            return
        txt = buf.getvalue()
        try:
            val = float(txt.split('represents an area of')[1].split('deg^2')[0])
        except (IndexError, ValueError):
            h.violate('cli_area_output', {'stdout': txt[-300:], 'rc': rc}, rec, k)
            return
        ma = hs.set_area(len(model), M)
        o.count('cli_area_judged')
        if not abs(val - ma) <= AREA_RTOL * max(ma, 1e-30):
            h.violate('cli_area_vs_model', {'printed': val, 'model_area': ma}, rec, k)
    o.sample = {'container': desc, 'result': h.slot_summary(h.pool[k])}


def run_wrappers(case, o, workdir):
    """The MIMAS wrappers as a route for the set algebra, several calls in ONE process, every result judged against
    its own expected set: intersect_regions / --intersect with 3+ operand files in every order (one operand made of
    whole coarse pixels only, so its deepest level is empty after _renorm), reg2mim / --reg2mim of several region files
    one after the other, and combine_regions with freshly made containers filled by append."""
    import healpy as hp
    from astropy.coordinates import Angle
    import astropy.units as u
    from AegeanTools import MIMAS
    from AegeanTools.regions import Region
    from AegeanTools.CLI import MIMAS as cli
    rng = rng_for(*case['seed'])
    M = case['depth']
    res = _resol(M)

    def cli_main(args):
        buf = io.StringIO()
        with muted(), contextlib.redirect_stdout(buf):
            rc = cli.main(args)
        if rc not in (0, None):
            raise RuntimeError('MIMAS %s returned %r' % (args[0], rc))

    def judge(region, want, clause, detail):
        o.n_eval += 1
        o.count('wrapper_results_judged')
        lv, fr, pr = check_invariant(region)
        got = None if fr else hs.expand(lv, region.maxdepth)
        if fr or pr or got != want:
            w = dict(detail, n_result=None if got is None else len(got), n_expected=len(want),
                     extra=sorted(got - want)[:5] if got is not None else None,
                     missing=sorted(want - got)[:5] if got is not None else None, fractional=fr[:4], problems=pr[:2],
                     stored_per_level=dict((d, len(x)) for d, x in lv.items() if x))
            o.violate(clause, w, None)

    def subject(detail, fn, *a):
        try:
            return True, fn(*a)
        except Exception as e:
            o.violate('raises', dict(detail, exc_type=type(e).__name__, exc=repr(e)[:300],
                                     tb=traceback.format_exc()[-900:]), None)
            return False, None

    # ---------------- intersect: operands P (whole coarse pixels only), Q, R (circles), S (coarse pixels again)
    lo = max(1, M - int(rng.integers(1, 3)))
    p0 = int(rng.integers(0, hs.npix(lo)))
    nb = [int(x) for x in hp.get_all_neighbours(2 ** lo, p0, nest=True) if x >= 0]
    coarse = sorted(set([p0] + nb[:int(rng.integers(1, 4))]))
    th, ph = hp.pix2ang(2 ** lo, p0, nest=True)
    anchor = (float(ph), float(np.pi / 2 - th))
    regs, sets = {}, {}
    with muted():
        P = Region(maxdepth=M)
        P.add_pixels(coarse, lo)
        Q = Region(maxdepth=M)
        Q.add_circles(anchor[0], anchor[1], float(rng.uniform(0.6, 1.6) * _resol(lo)))
        R = Region(maxdepth=M)
        R.add_circles(float(anchor[0] + rng.normal(0, 0.3 * _resol(lo))), float(np.clip(anchor[1] + rng.normal(0, 0.3 * _resol(lo)), -1.5, 1.5)),
                      float(rng.uniform(0.6, 1.6) * _resol(lo)))
        S = Region(maxdepth=M)
        S.add_pixels(sorted(set(coarse[:2] + nb[-2:])), lo)
        for name, r in (('P', P), ('Q', Q), ('R', R), ('S', S)):
            path = os.path.join(workdir, name + '.mim')
            r.save(path)
            regs[name] = path
            sets[name] = hs.expand(hs.to_levels(dict((d, set(x)) for d, x in r.pixeldict.items()))[0], M)
    if len(P.pixeldict[M]) == 0 and sets['P']:
        o.count('intersect_operand_with_empty_deepest_level')
    orders = list(itertools.permutations(['P', 'Q', 'R'])) + [('P', 'S', 'Q'), ('S', 'P', 'R'), ('P', 'S'), ('S', 'P', 'Q', 'R'),
                                                              ('P', 'P', 'Q')]
    for k, order in enumerate(orders):
        want = set(sets[order[0]])
        for n in order[1:]:
            want &= sets[n]
        files = [regs[n] for n in order]
        detail = {'wrapper': 'intersect_regions', 'order': list(order), 'depth': M, 'coarse_level': lo,
                  'sizes': dict((n, len(sets[n])) for n in order)}
        if (k + case['seed'][-1]) % 3 == 0:
            out = os.path.join(workdir, 'i%d.mim' % k)
            args = []
            for f in files:
                args += ['--intersect', f]
            detail['wrapper'] = 'MIMAS --intersect'
            ok, _ = subject(detail, cli_main, args + ['-o', out])
            got = Region.load(out) if ok else None
        else:
            ok, got = subject(detail, MIMAS.intersect_regions, files)
        if ok:
            o.count('intersect_orders_judged')
            if len(order) >= 3:
                o.count('intersect_three_or_more_operands')
            if order[0] in ('P', 'S'):
                o.count('intersect_first_operand_whole_coarse_pixels')
            judge(got, want, 'intersect_wrapper_vs_model', detail)
    # ---------------- reg2mim, several files one after the other in this process
    specs = []
    for k in range(3):
        n = int(rng.integers(1, 3))
        circ = [(round(float(np.degrees(anchor[0]) + rng.normal(0, 8)) % 360, 6),
                 round(float(np.clip(np.degrees(anchor[1]) + rng.normal(0, 8), -80, 80)), 6),
                 round(float(rng.uniform(1.0, 5.0) * np.degrees(res) * 3600), 3)) for _ in range(n)]
        path = os.path.join(workdir, 'f%d.reg' % k)
        with open(path, 'w') as f:
            f.write('# Region file format: DS9\nfk5\n')
            for a, d, r in circ:
                f.write('circle(%r,%r,%r")\n' % (a, d, r))
        want = set()
        for a, d, r in circ:
            c = np.radians(np.array([Angle(repr(a), unit=u.degree).degree, Angle(repr(d), unit=u.degree).degree,
                                     Angle(repr(r), unit=u.arcsecond).degree]))
            want |= set(int(x) for x in hp.query_disc(2 ** M, vec_of([c[0]], [c[1]])[0], c[2], inclusive=True, nest=True))
        specs.append((path, os.path.join(workdir, 'f%d.mim' % k), want, circ))
    via_cli = case['seed'][-1] % 2 == 1
    if via_cli:
        args = []
        for path, out, want, circ in specs:
            args += ['--reg2mim', path, out]
        ok, _ = subject({'wrapper': 'MIMAS --reg2mim x3'}, cli_main, ['-depth', str(M)] + args)
    for k, (path, out, want, circ) in enumerate(specs):
        detail = {'wrapper': 'MIMAS --reg2mim' if via_cli else 'reg2mim', 'call_number_in_process': k + 1,
                  'circles_deg_arcsec': circ, 'depth': M}
        ok = True
        if not via_cli:
            with muted():
                ok, _ = subject(detail, MIMAS.reg2mim, path, out, M)
        if ok and os.path.exists(out):
            o.count('reg2mim_results_judged')
            if k > 0:
                o.count('reg2mim_later_calls_judged')
            judge(Region.load(out), want, 'reg2mim_vs_model', detail)
    # ---------------- combine_regions, fresh containers filled by append
    for k in range(3):
        cont = MIMAS.Dummy(maxdepth=M)
        ra, dec, rad = _gen_circle(rng, anchor, M)
        cd = [float(np.degrees(ra[0])), float(np.degrees(dec[0])), float(np.degrees(rad[0]))]
        cont.include_circles.append(cd)
        a, d, r = np.radians(np.array(cd))
        want = set(int(x) for x in hp.query_disc(2 ** M, vec_of([a], [d])[0], r, inclusive=True, nest=True))
        if k == 1:
            cont.add_region.append([regs['P']])
            want |= sets['P']
        if k == 2:
            cont.rem_region.append([regs['S']])         # nothing to remove from yet: order is add, remove, circles
        detail = {'wrapper': 'combine_regions', 'call_number_in_process': k + 1, 'circle_deg': cd, 'depth': M}
        with muted():
            ok, got = subject(detail, MIMAS.combine_regions, cont)
        if ok:
            o.count('combine_fresh_container_judged')
            judge(got, want, 'combine_wrapper_vs_model', detail)
    o.count('wrapper_cases')
    o.n_nontrivial += 1
    o.sample = {'depth': M, 'coarse_level': lo, 'sizes': dict((n, len(x)) for n, x in sets.items()),
                'P_stored': dict((d, len(x)) for d, x in P.pixeldict.items() if len(x))}


# =============================================================================================== entry points
def cases(seed, tier):
    out = []
    for name in TARGETED:
        out.append({'kind': 'script', 'name': name})
    for first in ALPHABET:
        out.append({'kind': 'exhaustive', 'depth': 2, 'length': 3, 'first': first})
    if tier == 'quick':
        for first in ALPHABET:
            out.append({'kind': 'exhaustive', 'depth': 3, 'length': 2, 'first': first})
    else:
        for first in ALPHABET:
            out.append({'kind': 'exhaustive', 'depth': 2, 'length': 4, 'first': first})
            out.append({'kind': 'exhaustive', 'depth': 3, 'length': 3, 'first': first})
            out.append({'kind': 'exhaustive', 'depth': 4, 'length': 2, 'first': first})
    nrand = 640 if tier == 'quick' else 12000
    for k in range(nrand):
        out.append({'kind': 'random', 'depth': 2 + k % 9, 'length': 12, 'seed': [seed, 'rand', k],
                    'whole_max': 6 if tier == 'quick' else 7})
    for k in range(40 if tier == 'quick' else 400):
        out.append({'kind': 'wrappers', 'depth': 2 + k % 8, 'seed': [seed if k >= 8 else 0, 'wrap', k]})
    ncomb = 48 if tier == 'quick' else 600
    for k in range(ncomb):
        out.append({'kind': 'combine', 'depth': 2 + k % 8, 'seed': [seed, 'comb', k]})
    return out


def run(case):
    install()
    hs.selfcheck()
    o = Obs()
    set_obs(o)
    workdir = scratch_dir()
    try:
        kind = case['kind']
        if kind == 'script':
            run_script(case, o, workdir)
        elif kind == 'exhaustive':
            run_exhaustive(case, o, workdir)
        elif kind == 'random':
            run_random(case, o, workdir)
        elif kind == 'combine':
            run_combine(case, o, workdir)
        elif kind == 'wrappers':
            run_wrappers(case, o, workdir)
        else:
            raise RuntimeError('harness: unknown case kind')
        return o.result()
    finally:
        set_obs(None)
        shutil.rmtree(workdir, ignore_errors=True)
