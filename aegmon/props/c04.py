"""C04 - model derivatives and per-parameter 1-sigma errors are the true ones.

icontract postconditions (recording) on the real fitting.jacobian / lmfit_jacobian / covar_errors.  The
workload drives them directly over generated models; `install()`/`set_obs()` let other properties (C01, C03, C05)
keep the same contracts armed while real fits run, so the derivatives the optimiser actually receives and the
errors the catalogue actually gets are checked at the parameter values the fit visits.
"""
import itertools
import os
import sys

import numpy as np

from aegmon.common import Obs, rng_for
from aegmon.refs import fisher

ID = 'C04'
LEVEL = 'exploration'
RULE = ('direct drive: models of 1-4 elliptical Gaussians (amp of both signs 1e-3..1e3, sx/sy ratio 1.05..4 either way, '
        'theta over the full circle incl. 0, +-45, +-90, 180), every one of the 63 non-empty free-parameter subsets for '
        'one component and seeded subsets for more, pixel grids 3x3..25x25 with masked holes, with/without errs, '
        'with/without the whitening matrix B=Bmatrix(Cmatrix(...)) or C; an evaluation is one contract evaluation '
        '(one call of jacobian / lmfit_jacobian / covar_errors); non-trivial = at least one free parameter and '
        'finite result; distinct = distinct case dicts x calls')
ASSUMPTIONS = ['oracle: the model re-implemented from its definition and differentiated by central differences with two '
               'Richardson extrapolations (validated against closed forms at start-up, 3e-12)',
               'the sigma clause is judged against sqrt(diag(F^-1)) with F built (numpy.linalg.solve) from the derivatives '
               'the real lmfit_jacobian returns - "those derivatives" in the statement - whose correctness is the other '
               'contract; cases with cond(F) >= 1e10 are undetermined']
MIN_REACH = {'fitting:jacobian': 1, 'fitting:lmfit_jacobian': 1, 'fitting:covar_errors': 1, 'fitting:errors': 1,
             'fitting:do_lmfit': 1}
MIN_COUNTERS = {'contract_Cmatrix': 10, 'contract_Bmatrix': 5, 'contract_component_errors': 10, 'component_shape_errors_judged': 5, 'contract_jacobian': 50, 'contract_lmfit_jacobian': 50, 'contract_covar_errors': 50,
                'sigma_entries_judged': 100, 'noise_model_selection_judged': 20, 'insitu_priorized_fits': 5, 'insitu_fits_seen': 20, 'priorized_rows_free_errors_judged': 5, 'component_position_errors_judged': 10, 'models_with_parameters_added_in_another_order': 20}

_OBS = None
_installed = False
_orig = {}
NAMES = fisher.NAMES
BUDGET = 1500       # fully judged derivative calls per case before 1-in-50 thinning starts
EVERY = 1           # in-situ thinning for large islands (set by other properties)


_RTC_ERRS = {}          # id(source) -> (source, its err_* as they left result_to_components)
_PENDING_FIT = False   # a fit was made (do_lmfit returned) and covar_errors has not been called since
EXPECT_COV = None      # docov selected by the caller of the finder entry point currently running (None: not known)


def set_obs(o):
    global _OBS
    _OBS = o


def _unpack(pars):
    n = int(pars['components'].value)
    comps, free = [], []
    for k in range(n):
        pre = 'c%d_' % k
        comps.append({nm: float(pars[pre + nm].value) for nm in NAMES})
        free.append([nm for nm in NAMES if pars[pre + nm].vary])
    return comps, free


def _describe(comps, free):
    return {'components': comps, 'free': free}


def _compare_rows(o, tag, got, want, comps, free, extra):
    """row-wise (one row per free parameter) comparison with the statement's tolerance"""
    labels = [(k, nm) for k in range(len(comps)) for nm in NAMES if nm in free[k]]
    if got.shape != want.shape:
        o.violate(tag + '_shape', dict(_describe(comps, free), got=list(got.shape), want=list(want.shape), **extra))
        return
    for r, (k, nm) in enumerate(labels):
        scale = np.max(np.abs(want[r]))
        floor = 1e-10 * abs(comps[k]['amp']) / (errs_scale(extra))
        err = np.max(np.abs(got[r] - want[r]))
        rel = err / max(scale, 1e-300)
        if scale > floor * 1e3:
            o.worst(tag + '_rel_err', rel)
        if not err <= 1e-6 * scale + floor:
            # which other parameter's derivative is it, if any?  (wrong position / wrong units diagnostics)
            hint = None
            for r2, (k2, nm2) in enumerate(labels):
                if r2 != r and np.max(np.abs(got[r] - want[r2])) <= 1e-6 * np.max(np.abs(want[r2])) + floor:
                    hint = 'equals d/d(c%d_%s)' % (k2, nm2)
            with np.errstate(all='ignore'):
                ratio = np.nanmedian(got[r][np.abs(want[r]) > 0.1 * scale] / want[r][np.abs(want[r]) > 0.1 * scale]) if scale > 0 else None
            o.violate(tag, dict(_describe(comps, free), parameter='c%d_%s' % (k, nm), rel_err=float(rel),
                                median_ratio_got_over_true=None if ratio is None else float(ratio), hint=hint, **extra),
                      _mech(nm, ratio))


def errs_scale(extra):
    e = extra.get('errs')
    return float(e) if isinstance(e, (int, float)) and e else 1.0


def _mech(nm, ratio):
    if nm == 'theta' and ratio is not None and abs(ratio - 180.0 / np.pi) < 1e-3 * 180 / np.pi:
        return 'theta-derivative-per-radian'
    return None


# ------------------------------------------------------------------------------------------ contracts
def post_jacobian(pars, x, y, result):
    o = _OBS
    if o is None:
        return True
    comps, free = _unpack(pars)
    if not any(free):
        return True
    x = np.asarray(x, dtype=float)
    y = np.asarray(y, dtype=float)
    if x.size > 400 and (o.counters.get('contract_jacobian_seen', 0) % max(EVERY, 1)):
        o.count('contract_jacobian_seen')
        return True
    if o.counters.get('contract_jacobian', 0) > BUDGET and (o.counters.get('contract_jacobian_seen', 0) % 50):
        # a fit that runs to tens of thousands of iterations (a noisy elongated source split into many components): after the
        # first BUDGET fully judged calls of a case only every 50th call is judged, so that the monitor does not dominate the run
        o.count('contract_jacobian_seen')
        o.count('contract_jacobian_thinned_over_budget')
        return True
    o.count('contract_jacobian_seen')
    want = fisher.jacobian(comps, free, x, y)
    got = np.asarray(result, dtype=float)
    o.count('contract_jacobian')
    o.n_eval += 1
    _compare_rows(o, 'jacobian', got.reshape(got.shape[0], -1), want.reshape(want.shape[0], -1), comps, free, {})
    return True


def post_lmfit_jacobian(pars, x, y, errs, B, emp, result):
    o = _OBS
    if o is None or emp:
        return True
    comps, free = _unpack(pars)
    if not any(free):
        return True
    x = np.asarray(x, dtype=float)
    y = np.asarray(y, dtype=float)
    if o.counters.get('contract_lmfit_jacobian', 0) > BUDGET and (o.counters.get('contract_lmfit_jacobian_seen', 0) % 50):
        o.count('contract_lmfit_jacobian_seen')
        return True
    if x.size > 400 and (o.counters.get('contract_lmfit_jacobian_seen', 0) % max(EVERY, 1)):
        o.count('contract_lmfit_jacobian_seen')
        return True
    o.count('contract_lmfit_jacobian_seen')
    want = fisher.jacobian(comps, free, x, y)             # (npar, npix), plain derivatives
    got = np.asarray(result, dtype=float).T               # (npar, npix) as handed to the optimiser
    o.count('contract_lmfit_jacobian')
    o.n_eval += 1
    extra = {}
    if B is not None:
        # undo the whitening (B is square and well conditioned by construction: eigenvalues floored at 1e-9 max)
        got = np.linalg.solve(np.asarray(B, dtype=float).T, got.T).T
        extra['whitened'] = True
    if errs is not None:
        got = got * errs
        extra['errs'] = float(np.max(errs)) if np.ndim(errs) else float(errs)
        want = want
    if got.shape != want.shape:
        o.violate('lmfit_jacobian_shape', dict(_describe(comps, free), got=list(got.shape), want=list(want.shape)))
        return True
    e2 = dict(extra)
    e2.pop('errs', None)
    _compare_rows(o, 'lmfit_jacobian', got, want, comps, free, e2)
    return True


def post_covar_errors(params, data, errs, B, C, result):
    o = _OBS
    if o is None:
        return True
    global _PENDING_FIT
    _PENDING_FIT = False
    comps, free = _unpack(result)
    if EXPECT_COV is not None:
        # "the noise/covariance model": the one the caller of the finder selected with docov
        o.count('noise_model_selection_judged')
        o.see('noise_model_selected', 'covariance' if EXPECT_COV else 'white')
        used = (B is not None) or (C is not None)
        if used != EXPECT_COV:
            o.violate('errors_from_a_noise_model_that_was_not_selected', dict(
                _describe(comps, free), docov_selected=EXPECT_COV, B_given=B is not None, C_given=C is not None))
    if not any(free):
        return True
    data = np.asarray(data)
    mask = np.where(np.isfinite(data))
    o.count('contract_covar_errors')
    o.n_eval += 1
    jac = _orig.get('lmfit_jacobian')
    if jac is None:
        from AegeanTools import fitting
        jac = fitting.lmfit_jacobian
    Jt = np.asarray(jac(result, mask[0], mask[1]), dtype=float).T      # plain derivatives from the real code
    labels = [(k, nm) for k in range(len(comps)) for nm in NAMES if nm in free[k]]
    got = [result['c%d_%s' % (k, nm)].stderr for k, nm in labels]
    try:
        want, cond = fisher.onesigma_from_jacobian(Jt, errs=errs, C=C, B=None if C is not None else B)
    except np.linalg.LinAlgError:
        want, cond = None, np.inf
    # the noise model enters through inv(C) (or B = C^-1/2): both sides lose cond(C)*eps there, in different ways
    cond_c = 1.0
    try:
        if C is not None:
            cond_c = float(np.linalg.cond(np.asarray(C, dtype=float)))
        elif B is not None:
            cond_c = float(np.linalg.cond(np.asarray(B, dtype=float))) ** 2
    except np.linalg.LinAlgError:
        cond_c = np.inf
    o.worst('log10_cond_of_noise_covariance', np.log10(cond_c) if np.isfinite(cond_c) and cond_c > 0 else 99)
    if not np.isfinite(cond_c) or cond_c * 2e-16 > 1e-4:
        o.count('sigma_undetermined_ill_conditioned_noise_covariance')
        return True
    if want is None or not np.isfinite(cond) or cond >= 1e10 or not np.all(np.isfinite(want)):
        o.count('sigma_undetermined_ill_conditioned')
        # the documented behaviour for a singular matrix is a negative marker or a finite number; NaN/None would
        # be judged by C03's catalogue invariants, not here
        return True
    for (k, nm), g, w in zip(labels, got, want):
        o.count('sigma_entries_judged')
        if g is None or not np.isfinite(g):
            o.violate('sigma_missing', dict(_describe(comps, free), parameter='c%d_%s' % (k, nm), got=repr(g), want=float(w)))
            continue
        rel = abs(g - w) / w
        o.worst('sigma_rel_err', rel)
        if rel > 1e-6 + cond * 1e-13 + cond_c * 2e-15:
            # whose sigma is it?
            hint = None
            for (k2, nm2), w2 in zip(labels, want):
                if (k2, nm2) != (k, nm) and abs(g - w2) <= 1e-6 * w2:
                    hint = 'equals sigma of c%d_%s' % (k2, nm2)
            o.violate('sigma', dict(_describe(comps, free), parameter='c%d_%s' % (k, nm), got=float(g), want=float(w),
                                    cond=float(cond), hint=hint, with_C=C is not None, with_B=B is not None),
                      'component-inherits-first-components-sigma' if hint and k > 0 and hint.startswith('equals sigma of c0_') else None)
    return True


def sphere_sep(r1, d1, r2, d2):
    from aegmon.refs import sphere
    return sphere.sep(r1, d1, r2, d2)


def position_angle(r1, d1, r2, d2):
    from aegmon.refs import sphere
    return sphere.position_angle(r1, d1, r2, d2)


def _oracle_wcs(finder):
    """independent WCS of the image the finder is working on (None when out of the oracle's scope)"""
    try:
        from aegmon.props import c16
        z = c16._zw(finder.global_data.wcshelper)
        return z if z else None
    except Exception:
        return None


def post_Cmatrix(x, y, sx, sy, theta, result):
    """the noise model: C[i,j] = elliptical Gaussian of the separation of pixels i and j (sigmas sx, sy; theta degrees CCW
    from the x axis), the same function the fitted model uses"""
    o = _OBS
    if o is None:
        return True
    x = np.asarray(x, dtype=float)
    y = np.asarray(y, dtype=float)
    n = len(x)
    if n == 0 or n > 700 or (n > 150 and o.counters.get('contract_Cmatrix', 0) % 4):
        o.count('contract_Cmatrix_skipped_size')
        o.count('contract_Cmatrix')
        return True
    o.count('contract_Cmatrix')
    o.n_eval += 1
    t = np.deg2rad(theta)
    dx = x[:, None] - x[None, :]
    dy = y[:, None] - y[None, :]
    u = dx * np.cos(t) + dy * np.sin(t)
    v = dx * np.sin(t) - dy * np.cos(t)
    want = np.exp(-0.5 * ((u / sx) ** 2 + (v / sy) ** 2))
    got = np.asarray(result, dtype=float)
    if got.shape != want.shape:
        o.violate('Cmatrix_shape', {'n': n, 'got': list(got.shape)})
        return True
    err = float(np.max(np.abs(got - want)))
    o.worst('Cmatrix_abs_err', err)
    if err > 1e-9:
        i, j = np.unravel_index(np.argmax(np.abs(got - want)), got.shape)
        o.violate('Cmatrix', {'sx': float(sx), 'sy': float(sy), 'theta': float(theta), 'n_pixels': n,
                              'pixel_i': [float(x[i]), float(y[i])], 'pixel_j': [float(x[j]), float(y[j])],
                              'got': float(got[i, j]), 'want': float(want[i, j]),
                              'mirrored': bool(abs(got[i, j] - np.exp(-0.5 * (((-dx[i, j]) * np.cos(t) + dy[i, j] * np.sin(t)) ** 2 / sx ** 2
                                                                                  + ((-dx[i, j]) * np.sin(t) - dy[i, j] * np.cos(t)) ** 2 / sy ** 2))) < 1e-9)})
    return True


def post_Bmatrix(C, result):
    """B B^T = C^-1 (judged when C is well enough conditioned that the eigenvalue floor 1e-9 max is not reached)"""
    o = _OBS
    if o is None:
        return True
    C = np.asarray(C, dtype=float)
    n = C.shape[0]
    if n == 0 or n > 400:
        return True
    w = np.linalg.eigvalsh(C)
    if w[0] <= 1e-8 * w[-1]:
        o.count('contract_Bmatrix_floored_not_judged')
        return True
    o.count('contract_Bmatrix')
    o.n_eval += 1
    B = np.asarray(result, dtype=float)
    resid = B.dot(B.T).dot(C) - np.eye(n)
    err = float(np.max(np.abs(resid)))
    o.worst('Bmatrix_BBtC_minus_I', err)
    if err > 1e-6 * (w[-1] / w[0]) * 1e-2 + 1e-7:
        o.violate('Bmatrix', {'n': n, 'max_abs_BBtC_minus_I': err, 'cond': float(w[-1] / w[0])})
    return True


def post_result_to_components(model, sources, finder=None):
    """err_* catalogue columns (observe_at #3): the reported errors of a component are the sky projections of ITS OWN
    pixel-space 1-sigma errors.  A length and its error scale by the same factor along one direction, so the relative
    errors are preserved:  err_a/a = err_s/s of whichever of (sx, sy) became the major axis, likewise for b;
    err_peak_flux = err_amp; err_pa = err_theta up to the (small) anisotropy of the pixel grid."""
    o = _OBS
    if o is None:
        return
    for src in sources:
        if not hasattr(src, 'err_a') or not hasattr(src, 'source'):
            continue
        if int(src.flags) & (2 | 16 | 32):       # FITERR, NOTFIT, WCSERR: errors are masked by design
            continue
        pre = 'c%d_' % src.source
        try:
            sx, sy = float(model[pre + 'sx'].value), float(model[pre + 'sy'].value)
            esx, esy = model[pre + 'sx'].stderr, model[pre + 'sy'].stderr
            eth = model[pre + 'theta'].stderr
            eamp = model[pre + 'amp'].stderr
        except KeyError:
            continue
        o.count('contract_component_errors')
        w = {'island': src.island, 'source': src.source, 'sx': sx, 'sy': sy, 'err_sx': esx, 'err_sy': esy, 'err_theta': eth,
             'a': src.a, 'b': src.b, 'pa': src.pa, 'err_a': src.err_a, 'err_b': src.err_b, 'err_pa': src.err_pa,
             'err_peak_flux': src.err_peak_flux, 'err_amp': eamp}
        if eamp is not None and np.isfinite(eamp) and model[pre + 'amp'].vary and src.err_peak_flux != -1:
            if not abs(src.err_peak_flux - eamp) <= 1e-9 * abs(eamp):
                o.violate('err_peak_flux_is_not_err_amp', w)
        free_shape = model[pre + 'sx'].vary and model[pre + 'sy'].vary
        ok = lambda v: v is not None and np.isfinite(v) and v > 0
        z = _oracle_wcs(finder)
        if z is None:
            o.count('component_errors_no_oracle_wcs')
            continue
        try:
            xo, yo = float(model[pre + 'xo'].value), float(model[pre + 'yo'].value)     # 1-based (row, column) by now
            theta = float(model[pre + 'theta'].value)
        except KeyError:
            continue

        def sky(px, py):
            r, d = z.pix2sky(py, px)
            return float(r), float(d)

        def skylen(s1, s2, ang):
            c, sn = np.cos(np.radians(ang)), np.sin(np.radians(ang))
            p1 = sky(xo + s1 * c, yo + s1 * sn)
            p2 = sky(xo + s2 * c, yo + s2 * sn)
            return float(sphere_sep(p1[0], p1[1], p2[0], p2[1]))
        if free_shape and ok(esx) and ok(esy) and ok(src.err_a) and ok(src.err_b) and ok(src.a) and ok(src.b):
            if esx > 0.2 * sx or esy > 0.2 * sy:
                # the sky error is a finite displacement: only linear (hence comparable) while the error is small
                o.count('component_errors_unconstrained_not_judged')
            else:
                # the sky projection of each pixel-space error along ITS OWN axis (independent WCS), as FWHM arcsec
                k = 3600.0 * 2.0 * np.sqrt(2.0 * np.log(2.0))
                e_x = k * skylen(sx, sx + esx, theta)
                e_y = k * skylen(sy, sy + esy, theta + 90.0)
                # the sky length of the sx axis' FWHM vector drawn from the centre in one piece (scaling the length of the
                # sigma vector instead differs at the 1e-6 level, the curvature of the projection over a couple of pixels)
                cc = 2.0 * np.sqrt(2.0 * np.log(2.0))
                l_x = 3600.0 * skylen(0.0, cc * sx, theta)
                # which pixel axis became `a`: the reported a (or b) IS the sky length of the sx axis (the other one is the
                # sy axis' length reduced by the non-orthogonality correction, so it cannot be identified by size alone)
                m_a, m_b = abs(src.a - l_x) <= 1e-7 * l_x, abs(src.b - l_x) <= 1e-7 * l_x
                if m_a and m_b:
                    # a (nearly) circular component: both reported axes equal the sx axis' length, so which one the code
                    # took as `a` cannot be told from the outside (thorough C01/C03, sx == sy to 2e-7) - not judged
                    a_from_x = None
                    o.count('component_errors_circular_not_judged')
                elif m_a:
                    a_from_x = True
                elif m_b:
                    a_from_x = False
                else:
                    a_from_x = None
                    o.count('component_errors_axis_not_identified')
                if a_from_x is not None:
                    (emaj, emin) = (e_x, e_y) if a_from_x else (e_y, e_x)
                    o.count('component_shape_errors_judged')
                    da = abs(src.err_a - emaj) / emaj
                    db = abs(src.err_b - emin) / emin
                    o.worst('err_a_vs_own_axis_projection_rel', da)
                    o.worst('err_b_vs_own_axis_projection_rel', db)
                    if da > 0.01 or db > 0.01:
                        crossed = abs(src.err_a - emin) <= 0.01 * emin and abs(src.err_b - emaj) <= 0.01 * emaj
                        o.violate('shape_errors_are_not_the_components_own', dict(w, expected_err_a=emaj, expected_err_b=emin,
                                                                                 crossed=bool(crossed)), None)
        if model[pre + 'theta'].vary and ok(eth) and ok(src.err_pa) and eth < 20.0 and sx > 0 and sy > 0:
            # err_pa = change of bearing, for a change err_theta of theta, of the axis along theta (the reported pa is that
            # bearing, plus a constant 90 deg when sy turned out to be the major axis) - independent WCS
            big = sx
            ang0 = theta
            c0 = sky(xo, yo)

            def bearing(ang):
                p = sky(xo + big * np.cos(np.radians(ang)), yo + big * np.sin(np.radians(ang)))
                return float(position_angle(c0[0], c0[1], p[0], p[1]))
            dpa = abs((bearing(ang0 + eth) - bearing(ang0) + 180.0) % 360.0 - 180.0)
            if dpa > 0:
                o.count('component_pa_errors_judged')
                d = abs(src.err_pa - dpa) / dpa
                o.worst('err_pa_vs_bearing_change_rel', d)
                if d > 0.05:
                    o.violate('err_pa_is_not_err_theta', dict(w, expected_err_pa=dpa))
        # position errors: the pixel offset (err_xo along the first index = rows = Dec-ish, err_yo along the second) carried to the sky;
        # err_ra is its extent along the parallel, err_dec its extent along the meridian (independent WCS)
        try:
            exo, eyo = model[pre + 'xo'].stderr, model[pre + 'yo'].stderr
            pos_free = model[pre + 'xo'].vary and model[pre + 'yo'].vary
        except KeyError:
            exo = eyo = None
            pos_free = False
        if pos_free and ok(exo) and ok(eyo) and ok(src.err_ra) and ok(src.err_dec) and max(exo, eyo) < 5.0:
            c0 = sky(xo, yo)
            c1 = sky(xo + exo, yo + eyo)
            e_ra = float(sphere_sep(c0[0], c0[1], c1[0], c0[1]))
            e_dec = float(abs(c1[1] - c0[1]))
            if e_ra > 0 and e_dec > 0:
                o.count('component_position_errors_judged')
                dr, dd = abs(src.err_ra - e_ra) / e_ra, abs(src.err_dec - e_dec) / e_dec
                o.worst('err_ra_vs_projection_rel', dr)
                o.worst('err_dec_vs_projection_rel', dd)
                if dr > 0.01 or dd > 0.01:
                    swapped = abs(src.err_ra - e_dec) <= 0.01 * e_dec and abs(src.err_dec - e_ra) <= 0.01 * e_ra
                    o.violate('position_errors_are_not_the_fits_own', dict(
                        w, err_xo=float(exo), err_yo=float(eyo), err_ra=src.err_ra, err_dec=src.err_dec, expected_err_ra=e_ra,
                        expected_err_dec=e_dec, swapped=bool(swapped)))


class ContractBroken(Exception):
    pass


def install():
    global _installed
    if _installed:
        return
    import icontract
    from AegeanTools import fitting
    posts = {'jacobian': post_jacobian, 'lmfit_jacobian': post_lmfit_jacobian, 'covar_errors': post_covar_errors,
             'Cmatrix': post_Cmatrix, 'Bmatrix': post_Bmatrix}
    for name, cond in posts.items():
        orig = getattr(fitting, name)
        _orig[name] = orig
        wrapped = icontract.ensure(cond, error=ContractBroken)(orig)
        setattr(fitting, name, wrapped)
        for m in list(sys.modules.values()):
            if m is None or not getattr(m, '__name__', '').startswith('AegeanTools'):
                continue
            if getattr(m, name, None) is orig:
                setattr(m, name, wrapped)
    # result_to_components has a parameter called `result` (icontract reserves that name): plain wrapper
    from AegeanTools import source_finder as sfm
    orig_rtc = sfm.SourceFinder.result_to_components

    def result_to_components(self, result, model, island_data, isflags):
        global _PENDING_FIT
        if _PENDING_FIT and _OBS is not None:
            # a fit was made and its parameters are being turned into catalogue rows, but the 1-sigma errors were never
            # computed from the Fisher matrix (covar_errors was not called after the fit): the rows carry something else
            _OBS.violate('errors_of_a_fit_not_taken_from_the_fisher_matrix', {
                'island': getattr(island_data, 'isle_num', None), 'docov_selected': EXPECT_COV,
                'stderr_arriving': {k: (None if model[k].stderr is None else float(model[k].stderr)) for k in list(model)[:7] if model[k].vary}})
        _PENDING_FIT = False
        out = orig_rtc(self, result, model, island_data, isflags)
        try:
            for s_ in out:
                _RTC_ERRS[id(s_)] = (s_, {k: getattr(s_, k, None) for k in ('err_ra', 'err_dec', 'err_a', 'err_b', 'err_pa', 'err_peak_flux')})
            while len(_RTC_ERRS) > 5000:
                _RTC_ERRS.pop(next(iter(_RTC_ERRS)))
        except Exception:
            pass
        try:
            post_result_to_components(model, out, self)
        except Exception as e:          # a monitor fault must never change the subject's behaviour
            if _OBS is not None:
                _OBS.count('contract_component_errors_monitor_fault')
        return out
    sfm.SourceFinder.result_to_components = result_to_components
    orig_refit = sfm.SourceFinder._refit_islands

    def _refit_islands(self, group, stage, *a, **kw):
        out = orig_refit(self, group, stage, *a, **kw)
        o = _OBS
        if o is not None:
            try:
                # the errors of parameters that the stage FREES are the fit's own (as they left result_to_components), whatever
                # is copied from the input catalogue afterwards for the parameters held fixed
                free_cols = ['err_peak_flux'] + (['err_ra', 'err_dec'] if stage >= 2 else []) + (['err_a', 'err_b', 'err_pa'] if stage >= 3 else [])
                for s_ in out:
                    rec = _RTC_ERRS.get(id(s_))
                    if rec is None or rec[0] is not s_:
                        continue
                    o.count('priorized_rows_free_errors_judged')
                    bad = {c: [rec[1][c], getattr(s_, c)] for c in free_cols
                           if not (rec[1][c] == getattr(s_, c) or (rec[1][c] != rec[1][c] and getattr(s_, c) != getattr(s_, c)))}
                    if bad:
                        o.violate('error_of_a_freed_parameter_replaced_after_the_fit', {
                            'stage': stage, 'island': getattr(s_, 'island', None), 'source': getattr(s_, 'source', None),
                            'fit_error_then_reported': bad})
            except Exception:
                o.count('contract_refit_monitor_fault')
        return out
    sfm.SourceFinder._refit_islands = _refit_islands
    orig_fit = sfm.do_lmfit

    def do_lmfit(*a, **kw):
        global _PENDING_FIT
        r = orig_fit(*a, **kw)
        _PENDING_FIT = True
        if _OBS is not None:
            _OBS.count('insitu_fits_seen')
        return r
    sfm.do_lmfit = do_lmfit
    # which noise model did the caller select?  recorded at the public entry points, judged where the errors are computed
    for meth in ('find_sources_in_image', 'priorized_fit_islands'):
        def make(orig_m):
            import functools
            import inspect
            sig = inspect.signature(orig_m)

            @functools.wraps(orig_m)
            def entry(self, *a, **kw):
                global EXPECT_COV
                old = EXPECT_COV
                try:
                    ba = sig.bind(self, *a, **kw)
                    ba.apply_defaults()
                    # a finder that already holds an image keeps the options it was loaded with (documented: "don't
                    # reload already loaded data"), so only a fresh finder's argument is the selection in force
                    EXPECT_COV = bool(ba.arguments.get('docov', True)) if self.global_data.img is None else None
                except Exception:
                    EXPECT_COV = None
                try:
                    return orig_m(self, *a, **kw)
                finally:
                    EXPECT_COV = old
            return entry
        setattr(sfm.SourceFinder, meth, make(getattr(sfm.SourceFinder, meth)))
    _installed = True


# ------------------------------------------------------------------------------------------ workload
def make_params(comps, free, order='documented'):
    """order: the order in which the entries are ADDED to the Parameters object (the documented order of derivative rows and of
    the sigmas does not depend on it): documented | by_kind | reversed_components | shape_first | components_first"""
    import lmfit
    p = lmfit.Parameters()
    items = [(k, nm) for k in range(len(comps)) for nm in NAMES]
    if order == 'by_kind':
        items = [(k, nm) for nm in NAMES for k in range(len(comps))]
    elif order == 'reversed_components':
        items = [(k, nm) for k in reversed(range(len(comps))) for nm in NAMES]
    elif order == 'shape_first':
        items = [(k, nm) for k in range(len(comps)) for nm in ('sx', 'sy', 'theta', 'amp', 'xo', 'yo')]
    if order == 'components_first':
        p.add('components', value=len(comps), vary=False)
    for k, nm in items:
        p.add('c%d_%s' % (k, nm), value=comps[k][nm], vary=nm in free[k])
    for k in range(len(comps)):
        p.add('c%d_flags' % k, value=0, vary=False)
    if order != 'components_first':
        p.add('components', value=len(comps), vary=False)
    return p


def _rand_comp(rng, shape, special_theta=None):
    r = float(rng.uniform(1.05, 4.0))
    s_small = float(rng.uniform(0.6, 3.0))
    sx, sy = (s_small * r, s_small) if rng.random() < 0.6 else (s_small, s_small * r)
    theta = float(rng.uniform(-180, 180)) if special_theta is None else float(special_theta)
    amp = float(rng.choice([-1, 1]) * 10 ** rng.uniform(-3, 3))
    if rng.random() < 0.3:
        # image units are arbitrary: uJy or nJy sources in a Jy/beam image, count images
        amp = float(rng.choice([-1, 1]) * 10 ** rng.uniform(-10, 9))
    return {'amp': amp, 'xo': float(rng.uniform(0.5, shape[0] - 1.5)), 'yo': float(rng.uniform(0.5, shape[1] - 1.5)),
            'sx': sx, 'sy': sy, 'theta': theta}


ALL_SUBSETS = [list(s) for n in range(1, 7) for s in itertools.combinations(NAMES, n)]


def cases(seed, tier):
    rng = rng_for(seed, 'c04')
    out = []
    # every free-parameter subset of one component, at special and random angles
    thetas = [0.0, 45.0, -45.0, 90.0, -90.0, 180.0, None, None] if tier == 'quick' else [0.0, 45.0, -45.0, 90.0, -90.0, 180.0, -180.0, 30.0, 1e-6, 89.999999] + [None] * 40
    for ti, th in enumerate(thetas):
        out.append({'kind': 'subsets1', 'theta': th, 'seed': [seed, 'sub', ti]})
    # in situ: real blind fits (noise + source, both noise models) with every contract armed, so that the derivatives the
    # optimiser actually receives, the sigmas the catalogue actually gets and the err_* columns are judged where they arise
    n_situ = 8 if tier == 'quick' else 120
    for i in range(n_situ):
        out.append({'kind': 'insitu', 'seed': [seed, 'insitu', i], 'n': 6})
    n_multi = 40 if tier == 'quick' else 8000
    for i in range(n_multi):
        out.append({'kind': 'multi', 'n': int(rng.integers(1, 5)), 'seed': [seed, 'multi', i],
                    'mode': str(rng.choice(['plain', 'errs', 'B', 'C']))})
    return out


def _grid(rng):
    shape = (int(rng.integers(3, 26)), int(rng.integers(3, 26)))
    data = np.ones(shape)
    if rng.random() < 0.5:
        nh = int(rng.integers(1, max(2, shape[0] * shape[1] // 6)))
        idx = rng.choice(shape[0] * shape[1], nh, replace=False)
        data.ravel()[idx] = np.nan
    return shape, data


def _drive(o, fitting, comps, free, data, mode, rng):
    order = 'documented'
    if rng.random() < 0.3:
        order = str(rng.choice(['by_kind', 'reversed_components', 'shape_first', 'components_first']))
        o.count('models_with_parameters_added_in_another_order')
    o.see('parameter_insertion_order', order)
    pars = make_params(comps, free, order)
    mask = np.where(np.isfinite(data))
    x, y = mask
    nfree = sum(len(f) for f in free)
    fitting.jacobian(pars, x, y)
    errs = None
    B = C = None
    if mode in ('errs', 'B', 'C'):
        errs = float(10 ** rng.uniform(-3, 2))
        if rng.random() < 0.4:
            # a per-pixel vector of 1-sigma errors, as the docstrings allow
            errs = errs * rng.uniform(0.5, 2.0, len(x))
    if mode in ('B', 'C'):
        C = fitting.Cmatrix(x, y, float(rng.uniform(0.8, 2.5)), float(rng.uniform(0.5, 0.8)), float(rng.uniform(-90, 90)))
        B = fitting.Bmatrix(C)
    fitting.lmfit_jacobian(pars, x, y, errs=errs, B=B)
    fitting.lmfit_jacobian(pars, x, y)
    if len(x) > nfree:
        img = fisher.model(comps, *np.indices(data.shape)) * np.where(np.isfinite(data), 1, np.nan)
        if np.ndim(errs):
            o.count('cases_with_per_pixel_errs')
        res = fitting.covar_errors(pars, img, errs=errs if errs is not None else 1.0, B=B, C=C if mode == 'C' else None)
        return res
    return None


def run(case):
    sys_path_repo()
    from AegeanTools import fitting
    fisher.selfcheck()
    install()
    o = Obs()
    set_obs(o)
    try:
        rng = rng_for(*case['seed'])
        if case['kind'] == 'insitu':
            from aegmon.props import c01
            from aegmon.refs import render
            import shutil
            from aegmon.common import scratch_dir
            global EVERY
            every_old = EVERY
            EVERY = 5            # thin the per-iteration derivative contract on large islands
            sc = scratch_dir()
            try:
                for k in range(case['n']):
                    t = c01.gen_source_case(rng, noisy=True, big_ok=False)
                    t['via'] = 'api'
                    t['bane'] = False
                    if rng.random() < 0.4:
                        t['src']['a'] = t['src']['b'] * float(rng.uniform(2.0, 3.5))
                        t['src']['pa'] = float(rng.choice([0.0, 90.0])) + float(rng.uniform(-15, 15))
                        t['src']['pa'] -= 180 if t['src']['pa'] > 90 else 0
                    if rng.random() < 0.3:
                        # beam angle quoted near +-180 and a source along it: the fit works at theta ~ +-180 where the
                        # conversion of err_theta into err_pa can wrap
                        t['beam'][2] = float(rng.choice([179.6, -179.7, 180.0, 179.95, -180.0, 179.0]))
                        t['src']['pa'] = float(rng.uniform(-1.5, 1.5))
                        t['src']['a'] = max(t['src']['a'], 1.8 * t['src']['b'])
                        t['snr'] = float(rng.uniform(40, 90))
                        t['flip_dec'] = False
                    if rng.random() < 0.35:
                        # an anisotropic plate scale at the source: rectangular pixels, so that a length along the major
                        # axis and one along the minor axis convert with different factors
                        t['cdelt_ratio'] = float(rng.choice([0.6, 0.75, 1.3, 1.6]))
                        t['flip_dec'] = False
                        o.count('insitu_fits_with_rectangular_pixels')
                    if t['docov']:
                        t['src']['a'] = min(t['src']['a'], 9.0 * t['scale'] * 3600)
                        t['src']['b'] = min(t['src']['b'], t['src']['a'])
                    h, z, truth, img, off = c01.build(t)
                    sgm = abs(truth['peak']) / t['snr']
                    nrng = np.random.default_rng(t['noise_seed'])
                    if t['docov']:
                        sa, sb, ang = c01.pixbeam_kernel(z, truth, t['beam'])
                        noise = render.correlated_noise(nrng, tuple(t['shape']), sgm, (sa / 2.0, sb / 2.0), ang)
                    else:
                        noise = render.correlated_noise(nrng, tuple(t['shape']), sgm)
                    rows = c01.run_finder(t, img + noise, h, sgm, sc)
                    o.count('insitu_fits')
                    if k % 2 == 0:
                        # the same image measured again by priorized fitting from the blind catalogue, with its own choice of
                        # noise model: derivative, sigma, err_* and noise-model contracts all armed on that path too
                        import logging
                        from AegeanTools.source_finder import SourceFinder
                        fn = os.path.join(sc, 'im.fits')
                        lg = logging.getLogger('aegmon-null')
                        srcs = SourceFinder(log=lg).find_sources_in_image(fn, rms=float(sgm), bkg=0.0, cores=1, docov=t['docov'])
                        if srcs:
                            dc2 = bool(rng.random() < 0.5)
                            stage = int(rng.integers(1, 4))
                            SourceFinder(log=lg).priorized_fit_islands(fn, catalogue=srcs, rms=float(sgm), bkg=0.0, cores=1,
                                                                       docov=dc2, stage=stage)
                            o.count('insitu_priorized_fits')
                            o.count('insitu_priorized_fits_docov_%s' % dc2)
                    o.n_nontrivial += 1
                o.sample = {'insitu_fits': case['n'], 'last_truth': truth, 'components': len(rows)}
            finally:
                EVERY = every_old
                shutil.rmtree(sc, ignore_errors=True)
            return o.result()
        if case['kind'] == 'subsets1':
            shape, data = _grid(rng)
            shape = (max(shape[0], 7), max(shape[1], 7))
            data = np.ones(shape)
            comp = _rand_comp(rng, shape, case['theta'])
            for sub in ALL_SUBSETS:
                for mode in ('plain', 'errs', 'B'):
                    _drive(o, fitting, [comp], [sub], data, mode, rng)
                o.n_nontrivial += 1
            o.see('free_subset_sizes', 63)
            o.sample = {'component': comp, 'grid': list(shape), 'subsets': 63}
        else:
            shape, data = _grid(rng)
            n = case['n']
            comps = [_rand_comp(rng, shape) for _ in range(n)]
            # components of one island often share parameter values exactly (psf-fixed components share theta, sx, sy;
            # summits on one row share xo): any per-call caching keyed on a value must survive that
            if n > 1 and rng.random() < 0.5:
                shared = [nm for nm in ('theta', 'sx', 'sy', 'xo', 'yo', 'amp') if rng.random() < 0.45] or ['theta']
                for c in comps[1:]:
                    if rng.random() < 0.8:
                        for nm in shared:
                            c[nm] = comps[0][nm]
                o.see('shared_parameters', ','.join(shared))
                o.count('cases_with_components_sharing_values')
            free = []
            for k in range(n):
                if rng.random() < 0.5:
                    free.append(list(NAMES))
                else:
                    free.append(list(ALL_SUBSETS[int(rng.integers(0, len(ALL_SUBSETS)))]))
            res = _drive(o, fitting, comps, free, data, case['mode'], rng)
            o.n_nontrivial += 1
            o.see('n_components', n)
            o.see('mode', case['mode'])
            o.sample = {'components': comps, 'free': free, 'grid': list(shape), 'mode': case['mode'],
                        'stderr': None if res is None else {k: res[k].stderr for k in res if res[k].vary}}
        return o.result()
    finally:
        set_obs(None)


def sys_path_repo():
    import os
    repo = os.environ.get('AEGMON_REPO', '/repo')
    if sys.path[0] != repo:
        sys.path.insert(0, repo)
