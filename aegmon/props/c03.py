"""C03 - every output catalogue is internally consistent and reproducible.

Hostile synthetic fields (blends, tiny islands, plateaux, NaN cuts, edge sources, both signs) are run through the
real blind and priorized fitting; the row-level invariants of aegmon.refs.catalog_inv are judged on the returned
objects and on the written tables, island rows are compared with an independent flood fill of the image, and every
run is repeated (same process with a fresh SourceFinder, and in a fresh interpreter).
"""
import json
import os
import shutil
import subprocess
import sys

import numpy as np

from aegmon.common import Obs, rng_for, scratch_dir
from aegmon.gen import fields
from aegmon.refs import catalog_inv, floodfill
from aegmon.refs import wcs_zenithal as wz

ID = 'C03'
LEVEL = 'exploration'
RULE = ('a case is one synthetic field (beam-correlated noise, 10-60 sources incl. 2-5 component blends, 1-3 pixel spikes, '
        'clipped plateaux, NaN blocks cutting islands, sources on/over the image edge, negative sources) run in one mode: '
        'blind (max_summits None/1/2/3), blind with island summaries, or priorized stage 1-3 with 21-70 groups, regroup '
        'on/off; an evaluation is one finder run (re-runs included); non-trivial = the run returned >= 1 row; distinct = '
        'distinct (field, mode) dicts')
ASSUMPTIONS = ['island rows are compared with an independent 8-connected flood fill (aegmon/refs/floodfill.py) of the same '
               'float32 image with the forced rms', 'reproducibility = attribute-wise equality (NaN == NaN) apart from uuid',
               'C04/C16/C17 contracts stay armed inside the fits']
MIN_REACH = {'source_finder:SourceFinder.find_sources_in_image': 1, 'source_finder:SourceFinder.priorized_fit_islands': 1,
             'source_finder:SourceFinder._refit_islands': 1, 'source_finder:SourceFinder.result_to_components': 1}
MIN_COUNTERS = {'island_positions_checked': 10, 'priorized_inputs_off_image_or_on_blank': 3, 'rows_checked': 200, 'island_rows_checked': 10, 'reruns_compared': 10, 'priorized_runs': 3,
                'fresh_process_reruns': 1, 'table_rows_checked': 20, 'db_rows_checked': 20, 'priorized_runs_catalogue_psf_larger_than_image_psf': 2, 'db_minus1_markers': 1, 'priorized_runs_from_a_table_without_uuid_column': 2, 'blind_runs_with_psf_map': 4, 'blind_runs_one_polarity_with_island_rows': 3, 'blind_runs_on_a_noise_map_with_a_step': 2, 'components_found_on_the_noise_step': 4, 'island_checks_with_flood_above_seed': 1, 'multi_component_islands_with_differing_psf': 3}
BATCHES_PER_JOB = 4

ISLAND_FIELDS = ['island', 'components', 'background', 'local_rms', 'ra_str', 'dec_str', 'ra', 'dec', 'peak_flux', 'int_flux',
                 'err_int_flux', 'eta', 'x_width', 'y_width', 'max_angular_size', 'pa', 'pixels', 'area', 'beam_area',
                 'flags', 'uuid', 'extent']


def sys_path_repo():
    repo = os.environ.get('AEGMON_REPO', '/repo')
    if sys.path[0] != repo:
        sys.path.insert(0, repo)
    return repo


def cases(seed, tier):
    rng = rng_for(seed, 'c03')
    out = []
    n_blind = 28 if tier == 'quick' else 300
    for i in range(n_blind):
        shape = (int(rng.integers(100, 180)), int(rng.integers(100, 180)))
        spec = fields.gen_field(rng, n_sources=int(rng.integers(0, 28)), shape=shape, plateau=bool(rng.random() < 0.25),
                                tiny=int(rng.integers(0, 6)), nan_blocks=int(rng.integers(0, 3)), edge=int(rng.integers(0, 4)),
                                far_from_crval=bool(i % 4 == 3))
        if i == 0:
            spec['sources'] = []
            spec['spikes'] = []           # the empty catalogue
        out.append({'kind': 'blind', 'field': spec, 'max_summits': [None, None, 1, 2, 3][int(rng.integers(0, 5))],
                    'island': bool(i % 2), 'docov': bool(rng.random() < 0.7), 'fresh': i % 5 == 1, 'table': i % 3 == 0,
                    'cores': 1})
        # seed/flood clips other than the defaults, including flood > seed (documented: the flood clip is then lowered to the
        # seed clip) - the island rows must describe the pixels detected with the clips actually in force
        if i % 4 == 1:
            # one polarity only (nonegative is the command line's default), with island rows: the catalogue must stay consistent
            out[-1]['polarity'] = [[False, True], [True, False]][(i // 4) % 2]
            out[-1]['island'] = True
        if i % 4 == 2:
            out[-1]['clips'] = [[5.0, 7.0], [6.0, 3.0], [4.5, 4.5], [8.0, 10.0], [5.0, 4.0]][(i // 4) % 5]
            out[-1]['island'] = True
    # blind runs with an external psf map that changes from map pixel to map pixel (a few image pixels): the components of one
    # blended island then have different local psfs; the int_flux / psf column relation is judged row by row
    n_psf = 8 if tier == 'quick' else 80
    for i in range(n_psf):
        shape = (int(rng.integers(110, 170)), int(rng.integers(110, 170)))
        spec = fields.gen_field(rng, n_sources=int(rng.integers(8, 22)), shape=shape, blends=0.5, tiny=0, nan_blocks=0, edge=0,
                                snr_range=(30, 300), faint=0.0)
        out.append({'kind': 'blind', 'field': spec, 'max_summits': None, 'island': bool(i % 2), 'docov': bool(i % 3 == 0),
                    'fresh': i % 4 == 1, 'table': False, 'cores': 1,
                    'psfmap': {'n': [int(rng.integers(24, 40)), int(rng.integers(24, 40))], 'seed': int(rng.integers(0, 2 ** 31))}})
    # a noise map with a step (file supplied): blends that straddle it hold a brighter summit BELOW the seed level in signal-to-
    # noise and a fainter one above it - summits the finder has to skip in the middle of its component bookkeeping
    for i in range(4 if tier == 'quick' else 40):
        shape = (130, 140)
        spec = fields.gen_field(rng, n_sources=0, shape=shape, tiny=0, nan_blocks=0, edge=0, noise=False)
        spec['sources'], spec['spikes'], spec['noise'] = [], [], 0.0
        beam_px = spec['beam'][0] / spec['scale']
        ext = float(np.clip(12.0 / beam_px, 2.2, 3.5))           # extended sources, FWHM about 12 pixels: islands of ~100 pixels
        bas = spec['beam'][0] * 3600 * ext
        fw = beam_px * ext
        for k in range(3):
            row = 22.0 + 43.0 * k
            sep = float(rng.uniform(1.0, 1.12)) * fw
            # left member on the quiet side (rms 1): summit pixel at snr ~5.6-5.8; right member on the noisy side (rms 1.25):
            # brighter summit pixel (~5.9-6.1) at snr ~4.7-4.9, i.e. below the seed level; one island (midpoint ~5.5 > 4 x 1.13)
            spec['sources'].append({'index': [row, 70.0 - sep / 2], 'peak': float(rng.uniform(5.2, 5.4)), 'a': bas, 'b': bas, 'pa': 0.0, 'kind': 'step_left'})
            spec['sources'].append({'index': [row, 70.0 + sep / 2], 'peak': float(rng.uniform(5.6, 5.8)), 'a': bas, 'b': bas, 'pa': 0.0, 'kind': 'step_right'})
        out.append({'kind': 'blind', 'field': spec, 'max_summits': None, 'island': False, 'docov': bool(i % 2), 'fresh': False,
                    'table': False, 'cores': 1, 'rms_step': {'at_col': 70, 'left': 1.0, 'right': 1.25, 'width': 1.5}})
    n_prior = 12 if tier == 'quick' else 120
    for i in range(n_prior):
        nsrc = int(rng.integers(22, 70))
        side = int(np.sqrt(nsrc) * 34) + 60
        spec = fields.gen_field(rng, n_sources=nsrc, shape=(side, side), blends=0.15, tiny=0, nan_blocks=int(rng.integers(0, 2)),
                                edge=int(rng.integers(0, 3)), snr_range=(15, 200), faint=0.0)
        out.append({'kind': 'prior', 'field': spec, 'stage': 1 + i % 3, 'regroup': bool((i // 3) % 2),
                    'docov': bool(rng.random() < 0.5), 'fresh': i % 6 == 0, 'input': 'truth' if i % 2 else 'blind',
                    # the input catalogue as objects, as a table file written by Aegean, or as a foreign table without uuid column
                    'form': ['objects', 'file_no_uuid', 'objects', 'file'][i % 4], 'ext': ['csv', 'vot', 'fits'][(i // 4) % 3]})
        if i % 4 in (1, 3) and i % 2:
            # a catalogue made at lower resolution: its psf columns are larger than the image psf, so that sources at or below
            # the catalogue psf deconvolve to nothing (they must be clipped to the image psf, not abort the run)
            out[-1]['cat_psf_scale'] = [1.5, 3.0][(i // 4) % 2]
    return out


# ------------------------------------------------------------------------------------------ running the finder
def _rows(sources):
    from AegeanTools.models import ComponentSource, IslandSource
    comps = [catalog_inv.as_row(s) for s in sources if isinstance(s, ComponentSource)]
    isles = [catalog_inv.as_row(s, ISLAND_FIELDS) for s in sources if isinstance(s, IslandSource)]
    return comps, isles


def _blind(fn, case, rms):
    from AegeanTools.source_finder import SourceFinder
    import logging
    sf = SourceFinder(log=logging.getLogger('aegmon-null'))
    kw = {}
    if case.get('psfmap'):
        kw['imgpsf'] = psf_map_file(case, fn)
    if case.get('clips'):
        kw['innerclip'], kw['outerclip'] = case['clips']
    if case.get('rms_step'):
        kw['rmsin'], kw['bkgin'] = rms_step_files(case, fn)
        srcs = sf.find_sources_in_image(fn, cores=1, docov=case['docov'], max_summits=case.get('max_summits'),
                                        doislandflux=False, nonegative=False, nopositive=False, **kw)
        return srcs
    pol = case.get('polarity') or [False, False]          # (nopositive, nonegative)
    srcs = sf.find_sources_in_image(fn, rms=rms, bkg=0.0, cores=1, docov=case['docov'], max_summits=case.get('max_summits'),
                                    doislandflux=case.get('island', False), nonegative=bool(pol[1]), nopositive=bool(pol[0]), **kw)
    return srcs


def rms_step_files(case, fn):
    """noise map with a smooth step between two levels, and a zero background map, next to the image file"""
    rp, bp = fn[:-5] + '_steprms.fits', fn[:-5] + '_stepbkg.fits'
    if not (os.path.exists(rp) and os.path.exists(bp)):
        from astropy.io import fits
        h, z, truth, img = fields.build(case['field'])
        st = case['rms_step']
        cols = np.arange(img.shape[1], dtype=float)
        prof = st['left'] + (st['right'] - st['left']) / (1.0 + np.exp(-(cols - st['at_col']) / st['width']))
        fits.PrimaryHDU(np.tile(prof, (img.shape[0], 1)).astype(np.float32), header=h).writeto(rp, overwrite=True)
        fits.PrimaryHDU(np.zeros(img.shape, dtype=np.float32), header=h).writeto(bp, overwrite=True)
    return rp, bp


def psf_map_file(case, fn):
    """writes (once) the psf cube belonging to the image file fn: own coarser grid of the image's projection, every map pixel
    its own beam, all no larger than the header beam (so every injected source is still at least psf sized)"""
    path = fn[:-5] + '_psfmap.fits'
    if os.path.exists(path):
        return path
    from astropy.io import fits
    f = case['field']
    h, z, truth, img = fields.build(f)
    rows, cols = f['shape']
    n1, n2 = case['psfmap']['n']
    rac, decc = [float(v) for v in z.index2sky(rows / 2.0 - 0.5, cols / 2.0 - 0.5)]
    cd = 1.3 * f['scale'] * max(rows, cols) / min(n1, n2)
    ph = wz.make_header(f['proj'], (rac, decc), (n1 / 2.0 + 0.5, n2 / 2.0 + 0.5), (-cd, cd), (n2, n1))
    rng = np.random.default_rng(case['psfmap']['seed'])
    cube = np.zeros((3, n2, n1))
    cube[0] = f['beam'][0] * rng.uniform(0.75, 1.0, (n2, n1))
    cube[1] = np.minimum(cube[0], f['beam'][1] * rng.uniform(0.75, 1.0, (n2, n1)))
    cube[2] = rng.uniform(-90, 90, (n2, n1))
    fits.PrimaryHDU(cube, header=ph).writeto(path, overwrite=True)
    return path


def _prior(fn, case, rms, catalogue):
    from AegeanTools.source_finder import SourceFinder
    import logging
    sf = SourceFinder(log=logging.getLogger('aegmon-null'))
    return sf.priorized_fit_islands(fn, catalogue=catalogue, rms=rms, bkg=0.0, cores=1, docov=case['docov'],
                                    stage=case['stage'], doregroup=case['regroup'], ratio=None)


def truth_catalogue(truth, beam, shape, z, psf_scale=1.0):
    """ComponentSource objects for the injected sources whose centre is on the image, one island each"""
    from AegeanTools.models import ComponentSource
    import uuid
    out = []
    for k, t in enumerate(truth):
        s = ComponentSource()
        s.island, s.source = k, 0
        s.ra, s.dec = t['ra'], t['dec']
        s.peak_flux = t['peak']
        s.a, s.b, s.pa = t['a'], t['b'], t['pa']
        s.int_flux = t['peak'] * t['a'] * t['b'] / (beam[0] * beam[1] * 3600 ** 2)
        s.err_ra = s.err_dec = 1e-5
        s.err_peak_flux = abs(t['peak']) * 0.01
        s.err_a = s.err_b = 0.1
        s.err_pa = 0.5
        s.err_int_flux = abs(s.int_flux) * 0.02
        s.psf_a, s.psf_b, s.psf_pa = beam[0] * 3600 * psf_scale, beam[1] * 3600 * psf_scale, beam[2]
        s.local_rms, s.background = 1.0, 0.0
        s.residual_mean = s.residual_std = 0.0
        s.flags = 0
        s.uuid = str(uuid.UUID(int=(k + 1) * 7919))
        from AegeanTools.angle_tools import dec2dms, dec2hms
        s.ra_str, s.dec_str = dec2hms(s.ra), dec2dms(s.dec)
        out.append(s)
    return out


def _same(a, b):
    if isinstance(a, float) and isinstance(b, float) and np.isnan(a) and np.isnan(b):
        return True
    if isinstance(a, (list, tuple)) and isinstance(b, (list, tuple)):
        return len(a) == len(b) and all(_same(x, y) for x, y in zip(a, b))
    return a == b


def compare_runs(o, rows1, rows2, what, ctx):
    o.count('reruns_compared')
    if len(rows1) != len(rows2):
        o.violate('rerun_differs', dict(ctx, what=what, n1=len(rows1), n2=len(rows2)))
        return
    for r1, r2 in zip(rows1, rows2):
        for k in r1:
            if k == 'uuid':
                continue
            if not _same(r1[k], r2.get(k)):
                o.violate('rerun_differs', dict(ctx, what=what, column=k, first=repr(r1[k]), second=repr(r2.get(k)),
                                                key=[r1.get('island'), r1.get('source')]))
                return


def _arm(o):
    from aegmon.props import c04, c17
    c04.install()
    c17.install()
    c04.set_obs(o)
    c17.set_obs(o)
    c04.EVERY = 10
    try:
        from aegmon.props import c16
        c16.install()
        c16.set_obs(o)
    except Exception:
        pass


def _disarm():
    from aegmon.props import c04, c17
    c04.set_obs(None)
    c17.set_obs(None)
    try:
        from aegmon.props import c16
        c16.set_obs(None)
    except Exception:
        pass


FRESH = r'''
import sys, json, os
sys.path.insert(0, %(repo)r); sys.path.insert(0, %(verif)r)
import logging
logging.disable(logging.CRITICAL)
from aegmon.props import c03
case = json.load(open(%(case)r))
out = c03.fresh_entry(case, %(fn)r)
json.dump(out, open(%(out)r, 'w'), default=c03._jd)
'''


def _jd(v):
    if hasattr(v, 'item'):
        return v.item()
    if isinstance(v, (set, tuple)):
        return list(v)
    return str(v)


def fresh_entry(case, fn):
    """executed in a fresh interpreter: the same run again -> rows"""
    sys_path_repo()
    h, z, truth, img = fields.build(case['field'])
    rms = float(case['field']['noise'] or 1.0)
    if case['kind'] == 'blind':
        comps, isles = _rows(_blind(fn, case, rms))
    else:
        cat = _input_catalogue(case, fn, rms, truth, z)
        comps, isles = _rows(_prior(fn, case, rms, _catalogue_arg(case, cat, fn)))
    return {'comps': comps, 'isles': isles}


def _catalogue_arg(case, cat, fn):
    """the catalogue in the form the case asks for: the objects, a table file written by Aegean, or that file without its uuid
    column (a catalogue that does not come from Aegean)"""
    form = case.get('form', 'objects')
    if form == 'objects':
        return cat
    from AegeanTools import catalogs
    ext = case.get('ext', 'csv')
    d = os.path.dirname(fn)
    out = os.path.join(d, 'input_comp.' + ext)
    if os.path.exists(out):
        os.remove(out)
    catalogs.save_catalog(os.path.join(d, 'input.' + ext), cat)
    if form == 'file_no_uuid':
        from astropy.table import Table
        fmt = {'csv': 'ascii.csv', 'vot': 'votable', 'fits': 'fits'}[ext]
        t = Table.read(out, format=fmt)
        t.remove_column('uuid')
        t.write(out, format=fmt, overwrite=True)
    return out


def _input_catalogue(case, fn, rms, truth, z):
    if case['input'] == 'truth':
        # every injected source, including those centred off the image, plus one entry on each blank block and a few
        # far off the image: inputs the finder has to skip (anywhere in the list, i.e. in any batch of 20 groups)
        rows, cols = case['field']['shape']
        extra = []
        for r0, r1, c0, c1 in case['field'].get('nan_blocks', []):
            ra, dec = z.index2sky((r0 + r1 - 1) / 2.0, (c0 + c1 - 1) / 2.0)
            extra.append(dict(truth[0], ra=float(ra), dec=float(dec), index=[(r0 + r1 - 1) / 2.0, (c0 + c1 - 1) / 2.0]))
        rng = np.random.default_rng(case['field']['noise_seed'])
        for _ in range(int(rng.integers(1, 4))):
            i, j = float(rng.uniform(-60, -5)), float(rng.uniform(0, cols))
            if rng.random() < 0.5:
                i, j = float(rng.uniform(0, rows)), cols + float(rng.uniform(5, 60))
            ra, dec = z.index2sky(i, j)
            extra.append(dict(truth[0], ra=float(ra), dec=float(dec), index=[i, j]))
        allsrc = list(truth) + extra
        allsrc = [allsrc[k] for k in rng.permutation(len(allsrc))]
        return truth_catalogue(allsrc, case['field']['beam'], case['field']['shape'], z, psf_scale=case.get('cat_psf_scale', 1.0))
    from AegeanTools.models import ComponentSource
    blind = _blind(fn, dict(case, docov=False, max_summits=None, island=False), rms)
    return [s for s in blind if isinstance(s, ComponentSource)]


def run(case):
    sys_path_repo()
    wz.selfcheck()
    floodfill.selfcheck()
    o = Obs()
    sc = scratch_dir()
    try:
        from astropy.io import fits
        h, z, truth, img = fields.build(case['field'])
        rms = float(case['field']['noise'] or 1.0)
        fn = os.path.join(sc, 'field.fits')
        fits.PrimaryHDU(img, header=h).writeto(fn, overwrite=True)
        from aegmon.refs import sphere as _sph
        if truth:
            o.worst('field_offset_from_crval_deg', max(float(_sph.sep(case['field']['crval'][0], case['field']['crval'][1], t_['ra'], t_['dec'])) for t_ in truth))
        ctx = {'mode': {k: case[k] for k in case if k != 'field'}, 'field': {k: case['field'][k] for k in ('proj', 'shape', 'scale', 'noise_seed')},
               'n_injected': len(truth)}
        if case.get('fresh'):
            # history independence: this process first works on a DIFFERENT image of the same sky (other beam, other
            # noise) with the same catalogue; the run that follows must still equal the one a fresh interpreter gives
            import copy as _copy
            dspec = _copy.deepcopy(case['field'])
            dspec['beam'] = [dspec['beam'][0] * 1.5, dspec['beam'][1] * 1.3, dspec['beam'][2] + 20.0 - (180.0 if dspec['beam'][2] + 20.0 > 90 else 0.0)]
            dspec['noise_seed'] = dspec['noise_seed'] + 1
            dh, dz, dtruth, dimg = fields.build(dspec)
            dfn = os.path.join(sc, 'decoy.fits')
            fits.PrimaryHDU(dimg, header=dh).writeto(dfn, overwrite=True)
            try:
                if case['kind'] == 'blind':
                    _blind(dfn, case, rms)
                else:
                    _prior(dfn, case, rms, _input_catalogue(case, fn, rms, truth, z))
                o.count('decoy_runs_on_another_image_first')
            except Exception:
                o.count('decoy_run_raised')
        _arm(o)
        try:
            if case['kind'] == 'blind':
                srcs = _guard(o, ctx, lambda: _blind(fn, case, rms))
                if srcs is None:
                    return _own(o)
                comps, isles = _rows(srcs)
                o.n_eval += 1
                o.count('own_runs')
                if case.get('polarity'):
                    o.count('blind_runs_one_polarity_with_island_rows')
                    want = -1.0 if case['polarity'][0] else 1.0
                    for r_ in comps + isles:
                        if r_.get('peak_flux') is not None and np.isfinite(r_['peak_flux']) and r_['peak_flux'] * want < 0:
                            o.violate('row_of_the_excluded_polarity', dict(ctx, row=r_))
                if case.get('rms_step'):
                    o.count('blind_runs_on_a_noise_map_with_a_step')
                    o.count('components_found_on_the_noise_step', len(comps))
                if case.get('psfmap'):
                    o.count('blind_runs_with_psf_map')
                    byi = {}
                    for r_ in comps:
                        byi.setdefault(r_['island'], set()).add((round(r_['psf_a'], 6), round(r_['psf_b'], 6)))
                    o.count('multi_component_islands_with_differing_psf', sum(1 for v in byi.values() if len(v) > 1))
                srcs2 = _guard(o, ctx, lambda: _blind(fn, case, rms))
                o.n_eval += 1
                o.count('own_runs')
            else:
                cat = _guard(o, ctx, lambda: _input_catalogue(case, fn, rms, truth, z))
                if cat is None:
                    return _own(o)
                o.count('priorized_input_sources', len(cat))
                import copy
                cat_first = copy.deepcopy(cat)          # identical input for both runs
                before = [catalog_inv.as_row(s) for s in cat]
                form = case.get('form', 'objects')
                o.see('priorized_catalogue_form', form + ('' if form == 'objects' else '/' + case.get('ext', 'csv')))
                if form != 'objects':
                    cat_first = _guard(o, ctx, lambda: _catalogue_arg(case, cat, fn))
                    if cat_first is None:
                        return _own(o)
                    o.count('priorized_runs_from_a_table_file')
                    if form == 'file_no_uuid':
                        o.count('priorized_runs_from_a_table_without_uuid_column')
                srcs = _guard(o, ctx, lambda: _prior(fn, case, rms, cat_first))
                after = [catalog_inv.as_row(s) for s in cat_first] if form == 'objects' else before
                if before != after and not all(_same(list(a.values()), list(b.values())) for a, b in zip(before, after)):
                    o.count('priorized_runs_that_modified_their_input_objects')      # observed, judged by C19/C05
                if srcs is None:
                    return _own(o)
                comps, isles = _rows(srcs)
                o.n_eval += 1
                o.count('own_runs')
                o.count('priorized_runs')
                if case.get('cat_psf_scale', 1.0) != 1.0 and case['input'] == 'truth':
                    o.count('priorized_runs_catalogue_psf_larger_than_image_psf')
                o.see('priorized_stage_regroup', '%d/%s' % (case['stage'], case['regroup']))
                if len(cat) > 20:
                    o.count('priorized_runs_over_20_inputs')
                srcs2 = _guard(o, ctx, lambda: _prior(fn, case, rms, copy.deepcopy(cat) if form == 'objects' else cat_first))
                o.n_eval += 1
                o.count('own_runs')
                skipped = 0
                for s_ in cat:
                    i_, j_ = [int(round(float(v))) for v in z.sky2index(s_.ra, s_.dec)]
                    if not (0 <= i_ < img.shape[0] and 0 <= j_ < img.shape[1]) or not np.isfinite(img[i_, j_]):
                        skipped += 1
                o.count('priorized_inputs_off_image_or_on_blank', skipped)
                # every output carries an input uuid (C05 judges the rest)
                inu = set(s.uuid for s in cat)
                for r in comps:
                    if form != 'file_no_uuid' and r['uuid'] not in inu:
                        o.violate('priorized_uuid_not_an_input', dict(ctx, row=r))
        finally:
            _disarm()
        if comps or isles:
            o.n_nontrivial += 1
        # ---- row invariants on the returned objects
        catalog_inv.check_components(comps, o.violate, o.count, ctx)
        for r in comps:
            o.see('flags', int(r['flags']))
        # ---- island rows
        if isles:
            _check_islands(o, ctx, comps, isles, img, rms, z, clips=case.get('clips'))
        # ---- reproducibility, same process
        if srcs2 is not None:
            c2, i2 = _rows(srcs2)
            compare_runs(o, comps, c2, 'second SourceFinder in the same process', ctx)
            compare_runs(o, isles, i2, 'island rows, second SourceFinder in the same process', ctx)
        # ---- reproducibility, fresh interpreter
        if case.get('fresh'):
            cj = os.path.join(sc, 'case.json')
            oj = os.path.join(sc, 'fresh.json')
            with open(cj, 'w') as f:
                json.dump(case, f)
            code = FRESH % {'repo': sys_path_repo(), 'verif': os.path.dirname(os.path.dirname(os.path.dirname(os.path.abspath(__file__)))),
                            'case': cj, 'fn': fn, 'out': oj}
            p = subprocess.run([sys.executable, '-c', code], stdout=subprocess.PIPE, stderr=subprocess.STDOUT, timeout=1200)
            if p.returncode != 0 or not os.path.exists(oj):
                raise RuntimeError('fresh-process rerun failed: ' + p.stdout.decode(errors='replace')[-1500:])
            fr = json.load(open(oj))
            o.count('fresh_process_reruns')
            o.n_eval += 1
            o.count('own_runs')
            compare_runs(o, json.loads(json.dumps(comps, default=_jd)), fr['comps'], 'fresh interpreter', ctx)
            compare_runs(o, json.loads(json.dumps(isles, default=_jd)), fr['isles'], 'island rows, fresh interpreter', ctx)
        # ---- the written table
        if case.get('table') and srcs:
            _check_table(o, ctx, srcs, comps, sc)
        o.sample = {'mode': ctx['mode'], 'injected': len(truth), 'components': len(comps), 'island_rows': len(isles),
                    'first_row': comps[0] if comps else None}
        return _own(o)
    finally:
        _disarm()
        shutil.rmtree(sc, ignore_errors=True)


def _own(o):
    """evaluations = finder runs of this property (counted in own_runs); contract evaluations are reported apart"""
    own = o.counters.get('own_runs', 0)
    o.count('insitu_contract_evaluations', max(0, o.n_eval - own))
    o.n_eval = own
    return o.result()


def _guard(o, ctx, fn):
    """exceptions of the subject on a valid image are violations; harness exceptions propagate"""
    try:
        return fn()
    except Exception:
        import traceback
        tb = traceback.format_exc()
        last = tb.strip().splitlines()
        frames = [l for l in last if l.strip().startswith('File ')]
        if frames and '/AegeanTools/' in frames[-1] or any('/AegeanTools/' in f for f in frames[-3:]):
            o.violate('raises', dict(ctx, traceback=tb[-1800:]), _mech_exc(tb))
            return None
        raise


def _mech_exc(tb):
    return None


def _mech_island_pos(r, z, pix):
    from aegmon.refs import sphere
    pra, pdec = z.index2sky(pix[0] - 1, pix[1] - 1)
    if float(sphere.sep(r['ra'], r['dec'], float(pra), float(pdec))) < 1e-7:
        return 'island-position-one-pixel-off'
    return None


def _check_islands(o, ctx, comps, isles, img, rms, z=None, clips=None):
    """island rows vs component rows vs an independent flood fill of the image"""
    ncomp = {}
    for r in comps:
        ncomp[r['island']] = ncomp.get(r['island'], 0) + 1
    snr = floodfill.snr_image(img, 0.0, rms)
    seed, flood = clips or (5.0, 4.0)
    flood = min(flood, seed)
    if clips:
        o.count('island_checks_with_non_default_clips')
        if clips[1] > clips[0]:
            o.count('island_checks_with_flood_above_seed')
    oracle, _ = floodfill.islands_from_snr(snr, seed, flood)
    by_pixel = {}
    for isl in oracle:
        for p in isl:
            by_pixel[p] = isl
    seen = set()
    for r in isles:
        o.count('island_rows_checked')
        w = dict(ctx, island_row=r)
        if r['island'] in seen:
            o.violate('duplicate_island_row', w)
        seen.add(r['island'])
        if r['components'] != ncomp.get(r['island'], 0):
            o.violate('island_component_count', dict(w, component_rows=ncomp.get(r['island'], 0)))
        ext = r.get('extent')
        if not ext or len(ext) != 4:
            o.violate('island_extent_missing', w)
            continue
        xmin, xmax, ymin, ymax = [int(v) for v in ext]
        # the island whose pixels lie in that box and contain the reported peak value
        sub = img[xmin:xmax, ymin:ymax]
        cand = None
        with np.errstate(all='ignore'):
            pos = np.argwhere(sub == np.float32(r['peak_flux']))
        cands = []
        for q in pos:
            p = (int(q[0]) + xmin, int(q[1]) + ymin)
            if p in by_pixel and by_pixel[p] not in cands:
                cands.append(by_pixel[p])
        # clipped plateaux give several islands the same peak value, and another island's plateau can reach into this
        # island's box: among the islands holding such a pixel prefer the one whose own tight box is the reported extent
        for c_ in cands:
            (a0, a1), (b0, b1) = floodfill.tight_box(c_)
            if [a0, a1, b0, b1] == [xmin, xmax, ymin, ymax]:
                cand = c_
                break
        if cand is None and cands:
            cand = cands[0]
        if cand is None:
            o.violate('island_peak_pixel_not_on_a_detected_island', w)
            continue
        (r0, r1), (c0, c1) = floodfill.tight_box(cand)
        vals = np.array([img[p] for p in cand], dtype=float)
        peak = vals[np.argmax(np.abs(vals))] if (vals.max() <= 0 or vals.min() >= 0) else None
        strict = int(np.sum(np.abs(vals) - flood * rms > 0))
        if [xmin, xmax, ymin, ymax] != [r0, r1, c0, c1]:
            o.violate('island_extent', dict(w, oracle_extent=[r0, r1, c0, c1]))
        if r['pixels'] != strict:
            o.violate('island_pixel_count', dict(w, oracle_pixels=strict))
        if peak is not None and float(np.float32(r['peak_flux'])) != float(np.float32(peak)):
            o.violate('island_peak_pixel', dict(w, oracle_peak=float(peak)))
        if [r['x_width'], r['y_width']] != [r1 - r0, c1 - c0]:
            o.violate('island_widths', dict(w, oracle=[r1 - r0, c1 - c0]))
        # the island's position is the sky position of its peak pixel (independent WCS); judged when that pixel is unique
        if z is not None and peak is not None:
            at = [p for p in cand if float(np.float32(img[p])) == float(np.float32(peak))]
            if len(at) == 1 and r.get('ra') is not None and np.isfinite(r['ra']) and np.isfinite(r['dec']):
                from aegmon.refs import sphere
                pra, pdec = z.index2sky(at[0][0], at[0][1])
                d = float(sphere.sep(r['ra'], r['dec'], float(pra), float(pdec)))
                o.count('island_positions_checked')
                o.worst('island_position_vs_peak_pixel_deg', d)
                if d > 1e-7:
                    o.violate('island_position_is_not_its_peak_pixel', dict(w, peak_pixel=list(at[0]), peak_pixel_sky=[float(pra), float(pdec)],
                                                                           offset_deg=d), _mech_island_pos(r, z, at[0]))
    for isl in ncomp:
        if isl not in seen:
            o.violate('components_without_island_row', dict(ctx, island=isl))


def _check_table(o, ctx, srcs, comps, sc):
    from AegeanTools import catalogs
    from astropy.table import Table
    base = os.path.join(sc, 'cat.csv')
    try:
        catalogs.save_catalog(base, srcs)
    except Exception:
        import traceback
        o.violate('save_catalog_raises', dict(ctx, traceback=traceback.format_exc()[-1500:]))
        return
    fn = os.path.join(sc, 'cat_comp.csv')
    if not os.path.exists(fn):
        if comps:
            o.violate('table_missing', dict(ctx, expected='cat_comp.csv'))
        return
    t = Table.read(fn, format='ascii.csv')
    rows = []
    for i in range(len(t)):
        r = {}
        for k in t.colnames:
            v = t[k][i]
            if np.ma.is_masked(v):
                v = float('nan')
            elif hasattr(v, 'item'):
                v = v.item()
            r[k] = v
        rows.append(r)
    o.count('table_rows_checked', len(rows))
    if len(rows) != len(comps):
        o.violate('table_row_count', dict(ctx, table=len(rows), returned=len(comps)))
        return
    need = [k for k in catalog_inv.COMPONENT_FIELDS if k not in t.colnames]
    if need:
        o.violate('table_columns_missing', dict(ctx, missing=need))
        return
    catalog_inv.check_components(rows, lambda c, w: o.violate('table_' + c, w), lambda n, k=1: o.count('table_' + n, k),
                                 dict(ctx, where='cat_comp.csv'))
    # ---- the same catalogue as an sqlite database: the table must satisfy the same row invariants (a -1 "no error" marker
    #      stored as NULL is neither positive nor -1)
    import sqlite3
    dbf = os.path.join(sc, 'cat.db')
    if os.path.exists(dbf):
        os.remove(dbf)
    try:
        catalogs.save_catalog(dbf, srcs)
    except Exception:
        import traceback
        o.violate('save_catalog_raises', dict(ctx, traceback=traceback.format_exc()[-1500:], file='cat.db'))
        return
    con = sqlite3.connect(dbf)
    try:
        cur = con.execute('SELECT * FROM components')
        names = [d[0] for d in cur.description]
        drows = [dict(zip(names, rec)) for rec in cur.fetchall()]
    except sqlite3.Error as e:
        drows = None
        if comps:
            o.violate('table_missing', dict(ctx, expected='components table in cat.db', error=str(e)))
    finally:
        con.close()
    if drows is not None:
        o.count('db_rows_checked', len(drows))
        if len(drows) != len(comps):
            o.violate('table_row_count', dict(ctx, table=len(drows), returned=len(comps), file='cat.db'))
        elif not [k for k in catalog_inv.COMPONENT_FIELDS if k not in names]:
            catalog_inv.check_components(drows, lambda c, w: o.violate('table_' + c, w), lambda n, k=1: o.count('db_' + n, k),
                                         dict(ctx, where='cat.db'))
            o.count('db_minus1_markers', sum(1 for r_ in drows for e_ in catalog_inv.ERRS if r_.get(e_) == -1))
