"""C20 - image bands tile the image exactly and keep its astrometry.

The real AegeanTools.fits_tools.load_image_band is called for band i of n, i = 0..n-1, on generated files whose pixel
value encodes (slice, row, column) exactly, so the rows a band contains are read off the returned data:

  raises            a valid band specification raised
  data              the band is not a run of consecutive rows of the full image (values differ / wrong slice / wrong width)
  tiling_gap/_overlap  band i does not start where band i-1 ended
  cover             the bands of one (file, n) do not end at the last row (rows covered != rows)
  astrometry        a band pixel's sky position under the band header differs by > 1e-9 deg from that of the same
                    pixel (row offset read off the data) under the full header   (refs/wcs_zenithal.py)
  scaled_values     a BSCALE file: the loader's full image is not raw*BSCALE (BZERO is outside the statement)
  invalid_accepted  i >= n, i < 0 or n <= 0 did not raise; or a non-integer i or n (fractional float or numpy float,
                    nan, inf - also ones that would truncate to a valid pair) did not raise.  Integer-valued floats,
                    strings, None and bool are only recorded, numpy int64 pairs must give the python-int band

"Full image" = astropy.io.fits.getdata/getheader for plain files, the loader's own band (0,1) for scaled and compressed
ones.  Any partition into consecutive runs that starts at row 0 and ends at the last row satisfies the tiling clauses:
the oracle does not prescribe where the band boundaries are.  Empty bands (n > rows) are legal and counted.

Selection of (rows, n): `edge_pairs` evaluates the IEEE expression floor(rows/n*k) and compares it with the exact integer
rows*k//n; pairs where they differ for some k are all driven for rows <= 2000 (plus a seeded sample up to 20 000), next
to a uniform sample and friendly pairs.  This only selects inputs; every verdict comes from what the loader returned.
"""
import os
import shutil
import traceback

import numpy as np

from aegmon.common import Obs, rng_for, scratch_dir
from aegmon.refs import wcs_zenithal as wz
from aegmon.refs import sphere

ID = 'C20'
LEVEL = 'exploration'
RULE = ('(rows, n) pairs: every pair with rows <= 2000 (quick tier: rows <= 800 and a seeded 300 of the others), n <= 64 '
        'for which floor(rows/n*k) != rows*k//n for some k (4414 pairs, 3949 of them at k = n), a seeded sample of such pairs for rows up to 20 000, a uniform seeded '
        'sample over rows 1..20000 x n 1..64, friendly pairs (n | rows, powers of two, n > rows, rows = 1); each pair '
        'is driven through all n bands on a plain 2-D float32 file, and subsets through 3-D/4-D cubes at every cube '
        'index, an image extension (hdu_index=1), int16/int32 files, storage wider than float32 (BITPIX -64 with x.1 values, BITPIX 32 '
        'odd counts above 2**24, the same with a non-dyadic BSCALE), BSCALE on float32 and on integer data, and '
        'BANE-compressed files (real fits_tools.compress output, factors 1..64 with every fifth file at factor 1 and the next '
        'at a factor larger than the image; also carrying BSCALE the way BANE --compress writes them); headers vary projection, CDELT/CD form and sign, '
        'CRPIX (integer, fractional, off-image).  One evaluation = one load_image_band call whose result was '
        'judged; non-trivial = n >= 2; distinct = distinct (file form, rows, n, i), duplicates between strata removed')
ASSUMPTIONS = ['astropy.io.fits as the reader that defines the full image of plain files',
               'refs/wcs_zenithal.py cross-checked against astropy.wcs at start-up',
               'compressed inputs are produced by the real fits_tools.compress (that format is defined by it; C15 '
               'checks it separately)',
               'BZERO-scaled files and rotated CD matrices are outside the statement']
MIN_REACH = {'fits_tools:load_image_band': 1, 'fits_tools:expand': 1}
MIN_COUNTERS = {
    'quick': {'band_loads': 60000, 'pairs_judged': 2500, 'pairs_edge_last': 1500, 'pairs_edge_interior_only': 150,
              'pairs_friendly': 100, 'astrometry_judged': 50000, 'form_3d': 500, 'form_4d': 500,
              'form_compressed': 500, 'form_compressed_bscale': 500, 'form_f64': 500, 'form_int_big': 500,
              'form_bscale_i32': 500, 'scaled_full_checked_float64': 20, 'compressed_files_factor_1': 15,
              'compressed_files_factor_gt_size': 3, 'compressed_files_factor_gt_columns': 30, 'compressed_bscale_full_checked': 20, 'form_bscale_f32': 500, 'form_bscale_int': 500, 'invalid_specs': 50,
              'noninteger_specs': 300, 'numpy_integer_specs': 40},
    'thorough': {'band_loads': 250000, 'pairs_judged': 9000, 'pairs_edge_last': 5000,
                 'pairs_edge_interior_only': 500, 'pairs_friendly': 100, 'astrometry_judged': 200000,
                 'form_3d': 3000, 'form_4d': 3000, 'form_compressed': 3000, 'form_compressed_bscale': 2000, 'form_f64': 2000, 'form_int_big': 2000,
                 'form_bscale_i32': 2000, 'scaled_full_checked_float64': 80, 'compressed_files_factor_1': 60,
                 'compressed_files_factor_gt_size': 10, 'compressed_files_factor_gt_columns': 100, 'compressed_bscale_full_checked': 80, 'form_bscale_f32': 3000,
                 'form_bscale_int': 3000, 'invalid_specs': 200, 'noninteger_specs': 300, 'numpy_integer_specs': 40},
}

SKY_TOL = 1e-9
PROJS = ('SIN', 'TAN', 'ZEA', 'ARC', 'STG')
MAXN = 64


# ----------------------------------------------------------------------------- selection of (rows, n)
def edge_pairs(rows_list):
    """{(rows, n): 'last' | 'interior'} for pairs where floor(rows/n*k) != rows*k//n for some k in 1..n.
    'last' when k = n is among them (then float bands cannot reach the last row)."""
    rows = np.asarray(rows_list, dtype=np.int64)
    out = {}
    for n in range(1, MAXN + 1):
        k = np.arange(1, n + 1, dtype=np.int64)
        fl = np.floor(rows[:, None].astype(np.float64) / float(n) * k[None, :].astype(np.float64)).astype(np.int64)
        ex = (rows[:, None] * k[None, :]) // n
        diff = fl != ex
        for r in np.flatnonzero(diff.any(axis=1)):
            out[(int(rows[r]), n)] = 'last' if diff[r, -1] else 'interior'
    return out


FORMS = ('2d', '3d', '4d', 'ext1', 'int', 'bscale_f32', 'bscale_int', 'compressed', 'compressed_bscale',
         'f64', 'int_big', 'bscale_i32')          # the last three: storage wider than float32
COMPRESSED = ('compressed', 'compressed_bscale')


def cases(seed, tier):
    quick = tier == 'quick'
    work = {}           # (form key) -> list of (rows, n, stratum)
    seen = set()

    def add(form, rows, n, stratum):
        key = (form, rows, n)
        if key in seen:
            return
        seen.add(key)
        work.setdefault(form, []).append((rows, n, stratum))

    rng = rng_for(seed, 'c20-cases')
    ep = edge_pairs(range(1, 2001))
    # thorough: all of them; quick: all with rows <= 800 plus a seeded sample of 300 of the others
    rest = []
    for (rows, n), what in sorted(ep.items()):
        if quick and rows > 800:
            rest.append((rows, n, what))
        else:
            add('2d', rows, n, 'edge_' + what)
    for j in (rng.choice(len(rest), size=300, replace=False) if rest else []):
        add('2d', rest[j][0], rest[j][1], 'edge_' + rest[j][2])
    # the same arithmetic edge through the other file forms (seeded subsets)
    keys = sorted(ep)
    small = [k for k in keys if 2 <= k[0] <= 700]          # compress needs at least 2 rows (C15's domain)
    for form, pool, cnt in (('3d', keys, 100), ('4d', keys, 100), ('ext1', keys, 40), ('int', keys, 40),
                            ('f64', keys, 40), ('int_big', keys, 40), ('bscale_i32', keys, 40),
                            ('bscale_f32', keys, 100), ('bscale_int', keys, 100), ('compressed', small, 100),
                            ('compressed_bscale', small, 60)):
        cnt = cnt if quick else cnt * 5
        for j in rng.choice(len(pool), size=min(cnt, len(pool)), replace=False):
            add(form, pool[j][0], pool[j][1], 'edge_' + ep[pool[j]])
    # edge pairs beyond 2000 rows
    big_rows = sorted(set(int(r) for r in rng.integers(2001, 20001, 120 if quick else 4000)))
    epb = edge_pairs(big_rows)
    by_rows = {}
    for (rows, n) in sorted(epb):
        by_rows.setdefault(rows, []).append(n)
    for rows, ns in by_rows.items():
        for n in rng.choice(ns, size=min(len(ns), 2), replace=False):
            add('2d', rows, int(n), 'edge_' + epb[(rows, int(n))])
    # uniform sample
    for form, cnt in (('2d', 250), ('3d', 40), ('4d', 40), ('ext1', 20), ('int', 20), ('f64', 20), ('int_big', 20),
                      ('bscale_i32', 20), ('bscale_f32', 40),
                      ('bscale_int', 40), ('compressed', 60), ('compressed_bscale', 40)):
        cnt = cnt if quick else cnt * 10
        for _ in range(cnt):
            hi = 20000 if form not in COMPRESSED else 700
            rows = int(rng.integers(1, hi + 1)) if rng.random() < 0.5 else int(rng.integers(1, 300))
            if form in COMPRESSED:
                rows = max(rows, 2)
            add(form, rows, int(rng.integers(1, MAXN + 1)), 'uniform')
    # friendly pairs
    for form in FORMS:
        fr = [(64, 4), (64, 64), (512, 8), (1000, 10), (1024, 16), (4096, 64), (100, 1), (2, 2), (2, 1),
              (60, 12), (7, 7), (640, 5)]
        fr += [(1, 1), (1, 2), (1, 64), (3, 64), (5, 7), (63, 64), (2, 64)] if form not in COMPRESSED else [(2, 5), (3, 64)]
        for rows, n in fr:
            add(form, rows, n, 'friendly')
    # group by rows (one file per rows value), chunk to ~1500 loads per case
    out = []
    for form in FORMS:
        items = sorted(work.get(form, []))
        by = {}
        for rows, n, st in items:
            by.setdefault(rows, []).append((n, st))
        chunk, loads = [], 0
        cap = 1500 if form not in COMPRESSED else 500
        for rows in sorted(by):
            chunk.append([rows, [[n, st] for n, st in by[rows]]])
            loads += sum(n for n, _ in by[rows])
            if loads >= cap:
                out.append({'kind': 'pairs', 'form': form, 'work': chunk, 'seed': [seed, form, len(out)]})
                chunk, loads = [], 0
        if chunk:
            out.append({'kind': 'pairs', 'form': form, 'work': chunk, 'seed': [seed, form, len(out)]})
    for form in FORMS:
        out.append({'kind': 'invalid', 'form': form, 'seed': [seed, 'invalid', form]})
    # interleave the file forms so that the first reported violations show every mechanism, not only the 2-D one
    per = {}
    for c in out:
        per.setdefault(c['form'], []).append(c)
    mixed = []
    order = ('compressed', 'bscale_int', 'compressed_bscale', '2d', 'f64', 'int_big', 'bscale_i32', '3d', '4d', 'ext1', 'int',
             'bscale_f32')
    while any(per.values()):
        for form in order:
            if per.get(form):
                mixed.append(per[form].pop(0))
    return mixed


# ----------------------------------------------------------------------------- file builder
def _tail():
    return traceback.format_exc()[-1200:]


def build_file(form, rows, rng, tmp, ft, k=None):
    """returns dict(path, hdu_index, cube_index, ncols, raw2d, bscale, plain, info) ; raw2d = the stored values of the
    slice that will be loaded (before BSCALE)"""
    from astropy.io import fits
    ncols = 3 if form not in COMPRESSED else int(rng.integers(4, 9))
    m = int(rng.integers(1, 5)) if form in ('3d', '4d') else 1
    ci = int(rng.integers(0, m))
    vals = np.arange(m * rows * ncols, dtype=np.int64).reshape(m, rows, ncols) + int(rng.integers(0, 50))
    proj = PROJS[int(rng.integers(0, 5))]
    use_cd = bool(rng.integers(0, 2))
    scale = rng.uniform(0.2, 1.0) * min(0.01, 8.0 / rows)
    cd = (float(rng.choice([-1, 1])) * scale, float(rng.choice([1, 1, -1])) * scale * rng.uniform(0.8, 1.25))
    form_c = int(rng.integers(0, 4))
    if form_c == 0:
        crpix = (float(ncols // 2 + 1), float(rows // 2 + 1))
    elif form_c == 1:
        crpix = (round(rng.uniform(1, ncols), 3), round(rng.uniform(1, max(rows, 1)), 3))
    elif form_c == 2:
        crpix = (rng.uniform(-5, ncols + 5), rng.uniform(-0.02 * rows - 5, 1.02 * rows + 5))
    else:
        crpix = (2.0, float(rng.choice([1.0, 0.5, float(rows), rows + 0.5, -3.25])))
    crval = (rng.uniform(0, 360), rng.uniform(-70, 70))
    h = wz.make_header(proj, crval, crpix, cd, (rows, ncols), use_cd=use_cd)
    info = {'form': form, 'rows': rows, 'ncols': ncols, 'proj': proj, 'use_cd': use_cd, 'crpix': list(crpix),
            'cd': list(cd), 'nslices': m, 'cube_index': ci}
    path = os.path.join(tmp, 'f.fits')
    bscale = None
    hdu_index = 0
    stored = None
    if form == 'f64':
        # BITPIX -64 with values that float32 cannot hold (x.1, ~1e-8 relative from the nearest float32)
        data = vals[0].astype(np.float64) + 0.1
        stored = data
    elif form in ('int_big', 'bscale_i32'):
        # BITPIX 32 counts above 2**24, all odd: none of them is a float32 number
        data = (vals[0] * 2 + (2 ** 24 + 1)).astype(np.int32)
        info['dtype'] = 'int32'
        stored = data
    elif form in ('int', 'bscale_int'):
        dt = np.int16 if vals.max() <= 32767 else np.int32
        info['dtype'] = np.dtype(dt).name
        data = vals[0].astype(dt)
    elif form == '3d':
        data = vals.astype(np.float32)
    elif form == '4d':
        data = vals.astype(np.float32)[None]
    else:
        data = vals[0].astype(np.float32)
    if form in ('3d', '4d'):
        h['CTYPE3'], h['CRPIX3'], h['CRVAL3'], h['CDELT3'] = 'FREQ', 1.0, 1.4e9, 1e6
    if form == '4d':
        h['CTYPE4'], h['CRPIX4'], h['CRVAL4'], h['CDELT4'] = 'STOKES', 1.0, 1.0, 1.0
    if form == 'ext1':
        fits.HDUList([fits.PrimaryHDU(), fits.ImageHDU(data, header=h)]).writeto(path, overwrite=True)
        hdu_index = 1
    else:
        fits.PrimaryHDU(data, header=h).writeto(path, overwrite=True)
    if form in ('bscale_f32', 'bscale_int', 'bscale_i32'):
        bscale = float(rng.choice([0.5, 0.1, 3.0, -2.0, 0.25])) if form != 'bscale_i32' else \
            float(rng.choice([0.0123, 0.1, 1e-3, 7.0 / 3.0, -0.0123]))          # not dyadic
        info['bscale'] = bscale
        with fits.open(path, mode='update', do_not_scale_image_data=True) as hl:
            hl[0].header['BSCALE'] = bscale
        with fits.open(path, do_not_scale_image_data=True) as hl:        # harness self-check
            if hl[0].header.get('BSCALE') != bscale or 'BZERO' in hl[0].header or \
                    not np.array_equal(hl[0].data, data):
                raise RuntimeError('harness: could not write a BSCALE file with untouched raw data')
    if form in COMPRESSED:
        # the extreme factors are not left to chance: every fifth file is compressed with factor 1 (every pixel kept,
        # the padding row/column still stored), the next one with a factor larger than the image
        f = int(rng.choice([1, 2, 3, 4, 5, 8, 16, 64]))
        if k is not None and k % 5 == 0:
            f = 1
        elif k is not None and k % 5 == 1:
            f = int(min(64, max(rows, ncols) + 1 + int(rng.integers(0, 3))))
        info['factor'] = f
        cpath = os.path.join(tmp, 'fc.fits')
        if form == 'compressed':
            c = ft.compress(path, f, outfile=cpath)
        else:
            # what BANE --compress writes for an image whose header has BSCALE: the map divided by BSCALE in an HDU
            # that carries the image's header (BSCALE included), then fits_tools.compress
            import copy
            bscale = float(rng.choice([0.5, 0.1, 3.0, 0.25, 2.0, -2.0]))
            info['bscale'] = bscale
            hb = copy.deepcopy(h)
            hb['BSCALE'] = bscale
            hdu = fits.PrimaryHDU(data.copy())
            hdu.header = hb
            c = ft.compress(fits.HDUList([hdu]), f, outfile=cpath)
        if c is None or not os.path.exists(cpath):
            raise RuntimeError('harness: fits_tools.compress produced no file (C15 territory)')
        c.close()
        if form == 'compressed_bscale':
            with fits.open(cpath, do_not_scale_image_data=True) as hl:        # harness self-check
                if hl[0].header.get('BSCALE') != bscale or 'BZERO' in hl[0].header or \
                        not np.array_equal(hl[0].data[:-1, :-1], data[::f, ::f]):
                    raise RuntimeError('harness: could not produce a compressed file that carries BSCALE')
        path = cpath
    return {'path': path, 'hdu_index': hdu_index, 'cube_index': ci, 'ncols': ncols, 'raw2d': vals[ci] if stored is None else stored,
            'bscale': bscale, 'info': info, 'm': m}


def full_image(o, ft, fb, form):
    """(full 2-D array, full header) or None (after recording why)"""
    from astropy.io import fits
    if form in ('2d', '3d', '4d', 'ext1', 'int', 'f64', 'int_big'):
        d = fits.getdata(fb['path'], ext=fb['hdu_index'])
        h = fits.getheader(fb['path'], ext=fb['hdu_index'])
        if form == '3d':
            d = d[fb['cube_index']]
        elif form == '4d':
            d = d[0, fb['cube_index']]
        return np.asarray(d), h
    try:
        d, h = ft.load_image_band(fb['path'], band=(0, 1), hdu_index=fb['hdu_index'], cube_index=fb['cube_index'])
    except Exception:
        tb = _tail()
        o.violate('raises', dict(fb['info'], band=[0, 1], exc=tb), _mech_raises(fb['info'], tb))
        return None
    d = np.asarray(d)
    if form == 'compressed_bscale':
        f = fb['info']['factor']
        want = fb['raw2d'].astype(np.float64)[::f, ::f] * fb['bscale']
        o.count('scaled_full_checked')
        o.count('compressed_bscale_full_checked')
        if d.ndim != 2 or d[::f, ::f].shape != want.shape or not np.allclose(d[::f, ::f], want, rtol=1e-6, atol=0):
            o.violate('scaled_values', dict(fb['info'], what='decimation nodes of the loaded image vs stored*BSCALE',
                                            got_first=np.ravel(d[::f, ::f])[:3].tolist() if d.ndim == 2 else None,
                                            want_first=np.ravel(want)[:3].tolist()))
            return None
    if form.startswith('bscale'):
        want = fb['raw2d'].astype(np.float64) * fb['bscale']
        # float32 / int16 storage: float32 results are legitimate (astropy itself reads them as float32).  BITPIX 32 with
        # BSCALE is read by astropy as float64 = raw * BSCALE: the full image must be that to float64 rounding
        wide = form == 'bscale_i32'
        ok = d.shape == want.shape and np.allclose(d, want, rtol=1e-14 if wide else 1e-6, atol=0)
        o.count('scaled_full_checked')
        if wide:
            o.count('scaled_full_checked_float64')
            if d.shape == want.shape:
                o.worst('scaled_int32_vs_raw_times_bscale_rel', float(np.max(np.abs(d - want) / np.abs(want))))
        if not ok:
            o.violate('scaled_values', dict(fb['info'], got_first=np.ravel(d)[:3].tolist(),
                                            want_first=np.ravel(want)[:3].tolist()))
            return None
    return d, h


# ----------------------------------------------------------------------------- mechanisms (predicates over witnesses)
def _mech_raises(info, tb):
    if "ufunc 'multiply'" in tb and 'Cannot cast' in tb and info.get('form') == 'bscale_int':
        return 'band-bscale-inplace-on-integer-data'
    return None


def _mech_cover(rows, n, covered):
    if covered < rows and covered == int(rows / n * n):
        return 'band-rows-float-floor'
    return None


def _mech_astrometry(info, hb, hf, r0):
    if info.get('form') in COMPRESSED and r0 > 0 and hb.get('CRPIX2') == hf.get('CRPIX2'):
        return 'band-compressed-header-not-adjusted'
    return None


# ----------------------------------------------------------------------------- one (file, n)
def check_pair(o, ft, fb, full, hfull, zfull, order, sorted_first, n, stratum, rng):
    info = fb['info']
    rows, ncols = full.shape
    wit = dict(info, n=n, stratum=stratum)
    cursor = 0
    ranges = []
    tiling_ok = True
    for i in range(n):
        try:
            d, h = ft.load_image_band(fb['path'], band=(i, n), hdu_index=fb['hdu_index'],
                                      cube_index=fb['cube_index'])
        except Exception:
            tb = _tail()
            o.violate('raises', dict(wit, band=[i, n], exc=tb), _mech_raises(info, tb))
            return
        o.count('band_loads')
        o.n_eval += 1
        if n >= 2:
            o.n_nontrivial += 1
        d = np.asarray(d)
        if d.ndim != 2 or d.shape[1] != ncols:
            o.violate('data', dict(wit, band=[i, n], band_shape=list(d.shape)))
            return
        L = d.shape[0]
        if 'NAXIS2' in h and h['NAXIS2'] != L:
            o.count('info_header_naxis2_differs_from_band_rows')
        if L == 0:
            o.count('empty_bands')
            ranges.append([cursor, cursor])
            continue
        # which rows of the full image are these?  read off the data
        pos = int(np.searchsorted(sorted_first, d[0, 0]))
        r0 = int(order[pos]) if pos < rows and sorted_first[pos] == d[0, 0] else None
        if r0 is None or r0 + L > rows or not np.array_equal(d, full[r0:r0 + L]):
            o.violate('data', dict(wit, band=[i, n], band_rows=L, first_row_decoded=r0,
                                   band_first=np.ravel(d)[:3].tolist()))
            return
        ranges.append([r0, r0 + L])
        if r0 != cursor:
            tiling_ok = False
            o.violate('tiling_gap' if r0 > cursor else 'tiling_overlap',
                      dict(wit, band=[i, n], expected_start=cursor, got_rows=[r0, r0 + L]))
        cursor = r0 + L
        # astrometry of this band's pixels
        try:
            zb = wz.ZenithalWCS(h)
        except (KeyError, ValueError) as e:
            o.violate('astrometry', dict(wit, band=[i, n], header_unusable=repr(e)))
            continue
        ii = np.array([0, L - 1, int(rng.integers(0, L)), (L - 1) / 2.0])
        jj = np.array([0, ncols - 1, int(rng.integers(0, ncols)), (ncols - 1) / 2.0])
        rb, db = zb.index2sky(ii, jj)
        rf, df = zfull.index2sky(ii + r0, jj)
        sep = sphere.sep(rb, db, rf, df)
        if not np.all(np.isfinite(sep)):
            o.count('astrometry_undetermined')
            continue
        o.count('astrometry_judged')
        o.worst('astrometry_band_vs_full_deg', np.max(sep))
        if not np.max(sep) <= SKY_TOL:
            o.violate('astrometry', dict(wit, band=[i, n], band_rows=[r0, r0 + L], worst_deg=float(np.max(sep)),
                                         band_crpix2=h.get('CRPIX2'), full_crpix2=hfull.get('CRPIX2'),
                                         band_naxis2=h.get('NAXIS2')),
                      _mech_astrometry(info, h, hfull, r0))
    if cursor != rows:
        o.violate('cover', dict(wit, covered_rows=cursor, image_rows=rows, last_ranges=ranges[-3:]),
                  _mech_cover(rows, n, cursor))
    elif tiling_ok:
        o.count('pairs_tiled_exactly')
    o.count('pairs_judged')
    o.count({'edge_interior': 'pairs_edge_interior_only'}.get(stratum, 'pairs_' + stratum))
    o.count('form_' + ('bscale_int' if info['form'] == 'bscale_int' else info['form']), n)
    o.worst('max_rows_driven', rows)
    o.worst('max_n_driven', n)


INVALID = [(1, 1), (2, 2), (5, 3), (64, 64), (65, 64), (-1, 1), (-1, 4), (-3, 2), (0, 0), (0, -1), (1, 0),
           (-1, -1), (3, -4), (-2, 0)]


def nonint_specs():
    """band specifications that name no band because a member is not an integer: fractional python / numpy floats in
    either position (also ones that truncate or round to a valid pair), nan and inf.  They are invalid under the
    statement ("band i of n, i = 0..n-1") and must be rejected with an error - any exception type counts."""
    f64, f32 = np.float64, np.float32
    return [(0.5, 2), (1.5, 2), (0, 2.5), (1, 2.5), (1.999, 2), (0.999, 1), (-0.5, 2), (-0.999, 1), (0.25, 1),
            (2.0000001, 3), (0, 1.5), (0, 0.5), (3, 3.9), (f64(0.5), 2), (f64(1.5), f64(2.5)), (f32(1.5), np.int64(2)),
            (0, f64(2.5)), (f64(-0.5), 3), (float('nan'), 2), (0, float('nan')), (0, float('inf')),
            (float('inf'), float('inf'))]


def other_spellings():
    """not judged, only recorded (the statement does not say whether they are valid): integer-valued floats, strings,
    None, bool"""
    return [(1.0, 2), (0.0, 1.0), (np.float64(1.0), 2), (1, 2.0), ('0', '2'), ('1', 2), (None, 2), (True, 2)]


def run(case):
    from AegeanTools import fits_tools as ft
    wz.selfcheck()
    o = Obs()
    rng = rng_for(*case['seed'])
    tmp = scratch_dir()
    try:
        form = case['form']
        if case['kind'] == 'invalid':
            for rows in (1, 10, 97):
                if form in COMPRESSED and rows == 1:
                    continue
                fb = build_file(form, rows, rng, tmp, ft)
                for spec in INVALID:
                    try:
                        d, h = ft.load_image_band(fb['path'], band=spec, hdu_index=fb['hdu_index'],
                                                  cube_index=fb['cube_index'])
                    except Exception as e:
                        o.count('invalid_rejected')
                        o.see('invalid_spec_exception', type(e).__name__)
                    else:
                        o.violate('invalid_accepted', dict(fb['info'], band=list(spec),
                                                           returned_shape=list(np.shape(d))))
                    o.count('invalid_specs')
                    o.n_eval += 1
                    o.n_nontrivial += 1
                # non-integer spellings of the band
                for spec in nonint_specs():
                    try:
                        d, h = ft.load_image_band(fb['path'], band=spec, hdu_index=fb['hdu_index'],
                                                  cube_index=fb['cube_index'])
                    except Exception as e:
                        o.count('noninteger_rejected')
                        o.see('noninteger_spec_exception', type(e).__name__)
                    else:
                        o.violate('invalid_accepted', dict(fb['info'], band=repr(spec), spelling='non-integer',
                                                           returned_shape=list(np.shape(d))))
                    o.count('noninteger_specs')
                    o.n_eval += 1
                    o.n_nontrivial += 1
                for spec in other_spellings():
                    try:
                        d, h = ft.load_image_band(fb['path'], band=spec, hdu_index=fb['hdu_index'],
                                                  cube_index=fb['cube_index'])
                        o.see('info_other_spelling_outcome', '%r -> served %s' % (spec, list(np.shape(d))))
                    except Exception as e:
                        o.see('info_other_spelling_outcome', '%r -> %s' % (spec, type(e).__name__))
                # numpy integers (what np.arange hands out) are integers: same band as with python ints
                for i, n in ((0, 1), (1, 2), (2, 3), (0, 7)):
                    try:
                        d0, h0 = ft.load_image_band(fb['path'], band=(i, n), hdu_index=fb['hdu_index'],
                                                    cube_index=fb['cube_index'])
                    except Exception:
                        continue                      # judged by the pairs cases
                    try:
                        d1, h1 = ft.load_image_band(fb['path'], band=(np.int64(i), np.int64(n)),
                                                    hdu_index=fb['hdu_index'], cube_index=fb['cube_index'])
                    except Exception:
                        o.violate('raises', dict(fb['info'], band='(np.int64(%d), np.int64(%d))' % (i, n), exc=_tail()))
                        continue
                    o.count('numpy_integer_specs')
                    o.n_eval += 1
                    if not (np.array_equal(np.asarray(d0), np.asarray(d1)) and h0.get('CRPIX2') == h1.get('CRPIX2')
                            and h0.get('NAXIS2') == h1.get('NAXIS2')):
                        o.violate('data', dict(fb['info'], band='(np.int64(%d), np.int64(%d))' % (i, n),
                                               note='differs from the python-int call',
                                               shapes=[list(np.shape(d0)), list(np.shape(d1))]))
            o.sample = {'form': form, 'specs': INVALID, 'noninteger_specs': [repr(x) for x in nonint_specs()]}
            return o.result()
        for k_file, (rows, ns) in enumerate(case['work']):
            fb = build_file(form, rows, rng, tmp, ft, k=k_file)
            if form in COMPRESSED:
                f_ = fb['info']['factor']
                o.count('compressed_files')
                if f_ == 1:
                    o.count('compressed_files_factor_1')
                elif f_ > fb['ncols']:
                    o.count('compressed_files_factor_gt_columns')
                    if f_ > rows:
                        o.count('compressed_files_factor_gt_size')
            fi = full_image(o, ft, fb, form)
            if fi is None:
                continue
            full, hfull = fi
            if full.ndim != 2 or full.shape[1] != fb['ncols']:
                o.violate('data', dict(fb['info'], band=[0, 1], full_shape=list(full.shape)))
                continue
            if full.shape[0] != rows:
                o.count('info_full_rows_differ_from_written')
                if form in COMPRESSED:
                    # the whole-image load of a compressed file must give back every row of the image that was
                    # compressed (C15: dimensions are restored) - otherwise the bands can tile a truncated "full image"
                    # perfectly and hide the loss
                    o.violate('cover', dict(fb['info'], band=[0, 1], rows_written=rows, rows_loaded=int(full.shape[0]),
                                            what='band (0,1) of a compressed file does not hold all rows of the image'))
                    continue
            first = np.asarray(full[:, 0], dtype=np.float64)
            order = np.argsort(first, kind='stable')
            sorted_first = first[order]
            if len(np.unique(sorted_first)) != len(sorted_first):
                o.count('undetermined_rows_not_unique')
                continue
            try:
                zfull = wz.ZenithalWCS(hfull)
            except (KeyError, ValueError) as e:      # only reachable when the loader itself produced hfull
                o.violate('astrometry', dict(fb['info'], band=[0, 1], header_unusable=repr(e)))
                continue
            for n, stratum in ns:
                check_pair(o, ft, fb, full, hfull, zfull, order, sorted_first, int(n), stratum, rng)
            o.see('form', form)
            o.see('projection', fb['info']['proj'])
            if fb['m'] > 1:
                o.see('cube (slices, index)', '%d,%d' % (fb['m'], fb['cube_index']))
        o.sample = {'form': form, 'first_work_item': case['work'][0], 'counters': dict(o.counters)}
        return o.result()
    finally:
        shutil.rmtree(tmp, ignore_errors=True)
