"""Shared helpers for property modules."""
import hashlib
import json
import os
import tempfile

import numpy as np


def rng_for(seed, *tags):
    h = hashlib.sha256(json.dumps([seed, tags], default=str).encode()).digest()
    return np.random.default_rng(int.from_bytes(h[:8], 'little'))


_scratch_n = [0]


def reset_scratch():
    """called by the worker before every case: scratch directories are handed out as <worker dir>/case/d0, d1, ... so
    that the SAME file names recur from case to case inside one worker process.  Anything the subject remembers per
    file name (memoised headers, expanded images, ...) is then hit with different content and the oracle of the later
    case sees it."""
    import shutil
    _scratch_n[0] = 0
    base = os.environ.get('AEGMON_SCRATCH')
    if base:
        shutil.rmtree(os.path.join(base, 'case'), ignore_errors=True)


def scratch_dir():
    base = os.environ.get('AEGMON_SCRATCH')
    if base:
        d = os.path.join(base, 'case', 'd%d' % _scratch_n[0])
        _scratch_n[0] += 1
        os.makedirs(d, exist_ok=True)
        return d
    return tempfile.mkdtemp(prefix='aegmon_')


class Obs:
    """Collects what a case observed: counters (summed), maxima (worst margins), value sets, violations."""

    def __init__(self):
        self.counters = {}
        self.maxima = {}
        self.sets = {}
        self.violations = []
        self.n_eval = 0
        self.n_nontrivial = 0
        self.undetermined = 0
        self.sample = None

    def count(self, name, k=1):
        self.counters[name] = self.counters.get(name, 0) + int(k)

    def worst(self, name, value):
        if value is None:
            return
        value = float(value)
        if np.isnan(value):
            return
        if name not in self.maxima or value > self.maxima[name]:
            self.maxima[name] = value

    def see(self, name, value):
        self.sets.setdefault(name, set()).add(value)

    def violate(self, clause, witness, mechanism=None):
        if len(self.violations) < 25:
            self.violations.append({'clause': clause, 'mechanism': mechanism, 'witness': witness})
        self.count('violations_' + clause)

    def result(self):
        v = 'violated' if self.violations else ('held' if self.n_eval > 0 else 'undetermined')
        return {'verdict': v, 'n_eval': self.n_eval, 'n_nontrivial': self.n_nontrivial,
                'violations': self.violations, 'counters': self.counters, 'maxima': self.maxima,
                'sets': {k: sorted(v, key=str)[:100] for k, v in self.sets.items()},
                'sample': self.sample}


def n_distinct_rows(*arrays, decimals=12):
    """number of distinct input tuples among vectorised evaluations"""
    a = np.column_stack([np.round(np.asarray(x, dtype=float), decimals) for x in arrays])
    a = a[~np.isnan(a).any(axis=1)]
    if a.size == 0:
        return 0
    return int(len(np.unique(a, axis=0)))
