"""Synthetic sky fields for the source-finder properties (C03, C05, C11, C13).

A field spec is a JSON-serialisable dict; build(spec) renders it with the independent WCS/renderer:
  header, ZenithalWCS, truth list (sky parameters), image (float32), noise rms.
"""
import numpy as np

from aegmon.common import rng_for
from aegmon.refs import render, sphere
from aegmon.refs import wcs_zenithal as wz


def gen_field(rng, n_sources=20, shape=(160, 160), blends=0.3, faint=0.2, negative=0.2, tiny=3, nan_blocks=1,
              edge=2, plateau=False, isolated=False, noise=True, snr_range=(8, 200), far_from_crval=False):
    proj = str(rng.choice(wz.PROJECTIONS))
    scale = float(10 ** rng.uniform(np.log10(2.0), np.log10(30.0)) / 3600.0)
    rows, cols = shape
    dec0 = float(rng.uniform(-75, 75))
    ra0 = float(rng.choice([0.0, 359.99])) if rng.random() < 0.2 else float(rng.uniform(0, 360))
    crpix = (float(rng.uniform(1, cols)), float(rng.uniform(1, rows)))
    if far_from_crval:
        # a cut-out of a wide-field mosaic: the reference pixel lies 5-20 degrees outside the grid
        d = float(rng.uniform(5.0, 20.0)) / scale
        t = float(rng.uniform(0, 2 * np.pi))
        crpix = (cols / 2.0 + d * np.cos(t), rows / 2.0 + d * np.sin(t))
        dec0 = float(rng.uniform(-40, 40))
    beam_px = float(rng.uniform(3.5, 5.0))
    bmaj = beam_px * scale
    bmin = bmaj * float(rng.uniform(0.7, 1.0))
    bpa = float(rng.uniform(-90, 90))
    s = 1.0 if noise else 0.0
    spec = {'proj': proj, 'crval': [ra0, dec0], 'crpix': list(crpix), 'scale': scale, 'shape': [rows, cols],
            'beam': [bmaj, bmin, bpa], 'noise': s, 'noise_seed': int(rng.integers(0, 2 ** 31)), 'sources': [],
            'spikes': [], 'nan_blocks': [], 'clip': None}
    placed = []
    min_sep = 6.0 * beam_px if isolated else 3.5 * beam_px

    def place(margin):
        for _ in range(200):
            i, j = float(rng.uniform(margin, rows - 1 - margin)), float(rng.uniform(margin, cols - 1 - margin))
            if all(np.hypot(i - a, j - b) > min_sep for a, b in placed):
                placed.append((i, j))
                return i, j
        return None

    def shape_of(extended):
        a = bmaj * 3600 * (float(rng.uniform(1.0, 1.15)) if not extended else float(rng.uniform(1.3, 2.5)))
        b = max(bmin * 3600, a / float(rng.uniform(1.0, 2.0))) if extended else bmin * 3600 * float(rng.uniform(1.0, 1.1))
        if b > a:
            a, b = b, a
        return a, b, float(rng.uniform(-90, 90))

    for k in range(n_sources):
        pos = place(2.5 * beam_px)
        if pos is None:
            break
        snr = float(10 ** rng.uniform(np.log10(snr_range[0]), np.log10(snr_range[1])))
        if rng.random() < faint:
            snr = float(rng.uniform(4.5, 7.0))
        sign = -1.0 if rng.random() < negative else 1.0
        a, b, pa = shape_of(rng.random() < 0.3)
        spec['sources'].append({'index': [pos[0], pos[1]], 'peak': sign * snr * max(s, 1.0), 'a': a, 'b': b, 'pa': pa, 'kind': 'single'})
        if rng.random() < blends and not isolated:
            nb = int(rng.integers(1, 4))
            for _ in range(nb):
                d = float(rng.uniform(0.8, 2.0)) * beam_px
                t = float(rng.uniform(0, 2 * np.pi))
                a2, b2, pa2 = shape_of(False)
                spec['sources'].append({'index': [pos[0] + d * np.cos(t), pos[1] + d * np.sin(t)],
                                        'peak': sign * snr * float(rng.uniform(0.3, 1.0)) * max(s, 1.0),
                                        'a': a2, 'b': b2, 'pa': pa2, 'kind': 'blend'})
    for _ in range(edge):
        side = int(rng.integers(0, 4))
        off = float(rng.uniform(-2.0, 2.5))
        i = off if side == 0 else (rows - 1 - off if side == 1 else float(rng.uniform(5, rows - 5)))
        j = off if side == 2 else (cols - 1 - off if side == 3 else float(rng.uniform(5, cols - 5)))
        a, b, pa = shape_of(False)
        spec['sources'].append({'index': [i, j], 'peak': float(rng.uniform(20, 80)) * max(s, 1.0), 'a': a, 'b': b, 'pa': pa, 'kind': 'edge'})
    for _ in range(tiny):
        pos = place(3)
        if pos is None:
            break
        i, j = int(pos[0]), int(pos[1])
        npx = int(rng.integers(1, 4))
        val = float(rng.uniform(5.5, 9.0)) * float(rng.choice([-1, 1]))
        for q in range(npx):
            spec['spikes'].append([i + (q % 2), j + (q // 2), val * (1.0 if q == 0 else 0.85)])
    for _ in range(nan_blocks):
        if spec['sources'] and rng.random() < 0.7:
            # cut through a source
            src = spec['sources'][int(rng.integers(0, len(spec['sources'])))]
            i, j = int(src['index'][0]), int(src['index'][1])
            h, w = int(rng.integers(1, 6)), int(rng.integers(1, 12))
            spec['nan_blocks'].append([max(0, i + int(rng.integers(-3, 3))), min(rows, i + h + 2), max(0, j - w), min(cols, j + w)])
        else:
            r0, c0 = int(rng.integers(0, rows - 8)), int(rng.integers(0, cols - 8))
            spec['nan_blocks'].append([r0, r0 + int(rng.integers(2, 8)), c0, c0 + int(rng.integers(2, 8))])
    if plateau:
        spec['clip'] = float(rng.uniform(15, 40))
    return spec


def build(spec):
    s = spec['scale']
    h = wz.make_header(spec['proj'], spec['crval'], spec['crpix'], (-s, s), spec['shape'], beam=spec['beam'])
    z = wz.ZenithalWCS(h)
    truth = []
    for src in spec['sources']:
        ra, dec = z.index2sky(src['index'][0], src['index'][1])
        truth.append({'ra': float(ra), 'dec': float(dec), 'peak': src['peak'], 'a': src['a'], 'b': src['b'], 'pa': src['pa'],
                      'kind': src.get('kind'), 'index': src['index']})
    img = render.render(z, tuple(spec['shape']), truth, nsigma=6.0)
    if spec.get('noise'):
        rng = np.random.default_rng(spec['noise_seed'])
        # beam-correlated noise (what real radio images have)
        sa = spec['beam'][0] / s * render.FWHM2SIG
        sb = spec['beam'][1] / s * render.FWHM2SIG
        img = img + render.correlated_noise(rng, tuple(spec['shape']), spec['noise'], (sa / np.sqrt(2), sb / np.sqrt(2)),
                                            -spec['beam'][2])
    for i, j, v in spec.get('spikes', []):
        if 0 <= i < spec['shape'][0] and 0 <= j < spec['shape'][1]:
            img[i, j] = v * max(spec.get('noise') or 1.0, 1e-30)
    if spec.get('clip'):
        img = np.clip(img, -spec['clip'], spec['clip'])
    for r0, r1, c0, c1 in spec.get('nan_blocks', []):
        img[r0:r1, c0:c1] = np.nan
    return h, z, truth, img.astype(np.float32)


def offset_ok(spec, truth, limit):
    return all(sphere.sep(spec['crval'][0], spec['crval'][1], t['ra'], t['dec']) <= limit for t in truth)
