"""Reach evidence: sys.monitoring PY_START counters restricted to <repo>/AegeanTools code objects."""
import os
import sys

_counts = {}
_root = None
TOOL = 3


def _on_start(code, offset):
    fn = code.co_filename
    if not fn.startswith(_root):
        return sys.monitoring.DISABLE
    key = fn[len(_root):-3].replace(os.sep, '.') + ':' + code.co_qualname
    _counts[key] = _counts.get(key, 0) + 1


def start(repo):
    global _root
    _root = os.path.join(os.path.realpath(repo), 'AegeanTools') + os.sep
    mon = sys.monitoring
    try:
        mon.use_tool_id(TOOL, 'aegmon')
    except ValueError:
        return
    mon.register_callback(TOOL, mon.events.PY_START, _on_start)
    mon.set_events(TOOL, mon.events.PY_START)


def stop():
    mon = sys.monitoring
    try:
        mon.set_events(TOOL, 0)
        mon.free_tool_id(TOOL)
    except ValueError:
        pass
    return dict(_counts)
