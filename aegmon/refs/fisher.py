"""Independent model + numerical derivatives + Fisher matrix for sums of elliptical Gaussians.

Model (from the documented definition, theta in DEGREES, counter-clockwise from the x axis):
   m(x,y) = sum_k amp_k exp(-1/2 [ ((x-xo)cos t + (y-yo) sin t)^2/sx^2 + ((x-xo) sin t - (y-yo) cos t)^2/sy^2 ])
"""
import numpy as np

NAMES = ('amp', 'xo', 'yo', 'sx', 'sy', 'theta')


def model(comps, x, y):
    x = np.asarray(x, dtype=float)
    y = np.asarray(y, dtype=float)
    out = np.zeros(np.broadcast(x, y).shape)
    for c in comps:
        t = np.deg2rad(c['theta'])
        dx, dy = x - c['xo'], y - c['yo']
        u = dx * np.cos(t) + dy * np.sin(t)
        v = dx * np.sin(t) - dy * np.cos(t)
        out = out + c['amp'] * np.exp(-0.5 * ((u / c['sx']) ** 2 + (v / c['sy']) ** 2))
    return out


def _central(comps, k, name, x, y, h):
    # the model is a sum, so only component k depends on its own parameter: differencing that component alone avoids
    # the cancellation error a bright neighbour would add (dynamic ranges of 1e6 occur in the workloads)
    cp = dict(comps[k])
    cm = dict(comps[k])
    cp[name] += h
    cm[name] -= h
    return (model([cp], x, y) - model([cm], x, y)) / (2 * h)


def partial(comps, k, name, x, y):
    """d model / d (component k, parameter name): central differences + two Richardson extrapolations"""
    # the model is exactly 360-periodic in theta and fmod is exact: differencing at the reduced angle keeps the step
    # representable when the optimiser has wandered to theta ~ 1e9 deg (thorough C04: a +-0.2 deg step is then only
    # good to 2e-6)
    comps = list(comps)
    comps[k] = dict(comps[k], theta=float(np.fmod(comps[k]['theta'], 360.0)))
    v = comps[k][name]
    scale = {'amp': max(abs(v), 1e-3), 'xo': 1.0, 'yo': 1.0, 'sx': abs(v), 'sy': abs(v), 'theta': 10.0}[name]
    h = 2e-2 * scale
    d1 = _central(comps, k, name, x, y, h)
    d2 = _central(comps, k, name, x, y, h / 2)
    d4 = _central(comps, k, name, x, y, h / 4)
    r1 = (4 * d2 - d1) / 3
    r2 = (4 * d4 - d2) / 3
    return (16 * r2 - r1) / 15


def jacobian(comps, free, x, y):
    """rows in the documented order: component-major, (amp, xo, yo, sx, sy, theta), free parameters only.
    free = list of sets/lists of free names per component"""
    rows = []
    for k, _ in enumerate(comps):
        for name in NAMES:
            if name in free[k]:
                rows.append(partial(comps, k, name, x, y))
    return np.array(rows)


def onesigma_from_jacobian(Jt, errs=None, C=None, B=None):
    """Jt: (npar, npix) derivative rows.  Fisher = (J/errs)^T C^-1 (J/errs) with C^-1 = B B^T when B is given.
    -> (sigma vector, condition number)"""
    J = np.array(Jt, dtype=float)
    if errs is not None:
        J = J / errs
    if C is not None:
        F = J.dot(np.linalg.solve(C, J.T))
    elif B is not None:
        JB = J.dot(B)
        F = JB.dot(JB.T)
    else:
        F = J.dot(J.T)
    # work on the unit-diagonal form D F D (D = diag(F)^-1/2): the rows of F differ in scale by amp^2 (the amplitude row goes
    # as 1/errs, every other row as amp/errs), which says nothing about how well the parameters are determined; the
    # condition number reported is the scale-free one
    d = np.sqrt(np.diag(F))
    if not np.all(np.isfinite(d)) or np.any(d <= 0):
        raise np.linalg.LinAlgError('Fisher matrix has a non-positive diagonal')
    Fn = F / np.outer(d, d)
    cond = np.linalg.cond(Fn)
    covn = np.linalg.solve(Fn, np.eye(Fn.shape[0]))
    return np.sqrt(np.diag(covn)) / d, cond


def selfcheck():
    """differentiator against closed forms for one component"""
    c = [{'amp': 2.5, 'xo': 3.2, 'yo': 4.1, 'sx': 2.0, 'sy': 1.2, 'theta': 33.0}]
    x, y = np.mgrid[0:8, 0:9].astype(float)
    m = model(c, x, y)
    t = np.deg2rad(33.0)
    dx, dy = x - 3.2, y - 4.1
    u = dx * np.cos(t) + dy * np.sin(t)
    v = dx * np.sin(t) - dy * np.cos(t)
    exact = {
        'amp': m / 2.5,
        'sx': m * u ** 2 / 2.0 ** 3,
        'sy': m * v ** 2 / 1.2 ** 3,
        # d/dtheta[deg]: du/dt = -v... u' = -dx sin t + dy cos t = -v ; v' = dx cos t + dy sin t = u
        'theta': m * (-(u * (-v)) / 2.0 ** 2 - (v * u) / 1.2 ** 2) * np.pi / 180.0,
        'xo': m * (u * np.cos(t) / 2.0 ** 2 + v * np.sin(t) / 1.2 ** 2),
        'yo': m * (u * np.sin(t) / 2.0 ** 2 - v * np.cos(t) / 1.2 ** 2),
    }
    worst = 0.0
    for name, ex in exact.items():
        num = partial(c, 0, name, x, y)
        worst = max(worst, np.max(np.abs(num - ex)) / np.max(np.abs(ex)))
    if not worst < 1e-8:
        raise RuntimeError('oracle fault: numerical differentiator off by %g' % worst)
    return worst
