"""Independent island segmentation: explicit breadth-first flood fill, no scipy.ndimage.

Statement modelled (property C02): islands are the 8-connected groups of *finite* pixels with
|signal-to-noise| >= flood that contain at least one of *their own* pixels with |signal-to-noise| > seed.

    snr = |im - bkg| / rms        evaluated with numpy in the dtype of the inputs, same expression order as the
                                  statement, so a value that equals a threshold exactly is a tie in both
    candidate pixels = isfinite(snr) & (snr >= flood)
    group            = BFS over the 8 neighbours inside the image
    island           = group with max(snr over the group's own pixels) > seed

An island is a frozenset of (row, col) numpy indices.
"""
from collections import deque

import numpy as np

NEIGH8 = ((-1, -1), (-1, 0), (-1, 1), (0, -1), (0, 1), (1, -1), (1, 0), (1, 1))
NEIGH4 = ((-1, 0), (0, -1), (0, 1), (1, 0))


def snr_image(im, bkg, rms):
    with np.errstate(all='ignore'):
        return np.abs(np.asarray(im) - np.asarray(bkg)) / np.asarray(rms)


def groups(cand, neigh=NEIGH8):
    """8-connected groups of the True pixels of a 2-D boolean array; list of lists of (row, col), each group in
    BFS order, groups ordered by their first pixel in raster order"""
    cand = np.asarray(cand, dtype=bool)
    rows, cols = cand.shape
    c = cand.tolist()
    seen = [[False] * cols for _ in range(rows)]
    out = []
    for r0 in range(rows):
        crow = c[r0]
        for c0 in range(cols):
            if not crow[c0] or seen[r0][c0]:
                continue
            seen[r0][c0] = True
            q = deque([(r0, c0)])
            g = []
            while q:
                r, k = q.popleft()
                g.append((r, k))
                for dr, dc in neigh:
                    rr = r + dr
                    kk = k + dc
                    if 0 <= rr < rows and 0 <= kk < cols and c[rr][kk] and not seen[rr][kk]:
                        seen[rr][kk] = True
                        q.append((rr, kk))
            out.append(g)
    return out


def islands_from_snr(snr, seed, flood):
    """-> (islands, unseeded): two lists of frozensets of (row, col)"""
    snr = np.asarray(snr)
    with np.errstate(all='ignore'):
        cand = np.isfinite(snr) & (snr >= flood)
        above = (snr > seed).tolist()
    isl = []
    unseeded = []
    for g in groups(cand):
        if any(above[r][k] for r, k in g):
            isl.append(frozenset(g))
        else:
            unseeded.append(frozenset(g))
    return isl, unseeded


def islands(im, bkg, rms, seed, flood):
    return islands_from_snr(snr_image(im, bkg, rms), seed, flood)


def tight_box(pixels):
    """((rmin, rmax+1), (cmin, cmax+1)) of a non-empty pixel set"""
    rs = [p[0] for p in pixels]
    cs = [p[1] for p in pixels]
    return (min(rs), max(rs) + 1), (min(cs), max(cs) + 1)


def selfcheck():
    """cross-checks: hand-made cases with known answers, and scipy.ndimage.label on inputs without seed subtleties
    (every group is seeded).  A failure is an oracle fault, never a violation."""
    # hand-made: diagonal contact joins, a gap of one pixel separates, NaN splits, seed must be an own pixel
    n = np.nan
    im = np.array([[9, 0, 0, 0, 4.],
                   [0, 4, 0, 0, 4],
                   [0, 0, 0, 0, 0],
                   [4, 0, 4, n, 9]])
    isl, uns = islands(im, np.zeros_like(im), np.ones_like(im), 5.0, 4.0)
    want_i = {frozenset([(0, 0), (1, 1)]), frozenset([(3, 4)])}
    want_u = {frozenset([(0, 4), (1, 4)]), frozenset([(3, 0)]), frozenset([(3, 2)])}
    if set(isl) != want_i or set(uns) != want_u:
        raise RuntimeError('oracle fault: flood fill reference fails its hand-made case: %r %r' % (isl, uns))
    if tight_box(frozenset([(0, 0), (1, 1)])) != ((0, 2), (0, 2)):
        raise RuntimeError('oracle fault: tight_box')
    # ties: snr == flood is in, snr == seed does not seed
    im = np.array([[4., 5., 0., 5., 5.000001]])
    isl, uns = islands(im, 0 * im, 1 + 0 * im, 5.0, 4.0)
    if set(isl) != {frozenset([(0, 3), (0, 4)])} or set(uns) != {frozenset([(0, 0), (0, 1)])}:
        raise RuntimeError('oracle fault: flood fill reference mishandles threshold ties')
    from scipy.ndimage import label
    rng = np.random.default_rng(12345)
    for shape in ((1, 1), (1, 9), (7, 1), (6, 6), (9, 14), (17, 5)):
        for dens in (0.2, 0.45, 0.7):
            a = rng.random(shape) < dens
            lab, nl = label(a, structure=np.ones((3, 3)))
            want = set()
            for k in range(1, nl + 1):
                want.add(frozenset(zip(*[x.tolist() for x in np.where(lab == k)])))
            got = set(frozenset(g) for g in groups(a))
            if got != want:
                raise RuntimeError('oracle fault: BFS groups differ from scipy.ndimage.label on %r' % (shape,))
            # all groups seeded: value 10 everywhere on the candidates
            isl, uns = islands(np.where(a, 10.0, 0.0), np.zeros(shape), np.ones(shape), 5.0, 4.0)
            if set(isl) != want or uns:
                raise RuntimeError('oracle fault: islands() differs from scipy.ndimage.label on %r' % (shape,))
    return True
