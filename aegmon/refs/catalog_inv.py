"""Row-level catalogue invariants (C03; also armed in other properties' workloads)."""
from fractions import Fraction

import numpy as np

from aegmon.refs import sexa

FLAG_MASK = 0x7F
NOTFIT, FITERR, WCSERR = 16, 2, 32
ERRS = ('err_ra', 'err_dec', 'err_peak_flux', 'err_a', 'err_b', 'err_pa', 'err_int_flux')
COMPONENT_FIELDS = ['island', 'source', 'background', 'local_rms', 'ra_str', 'dec_str', 'ra', 'err_ra', 'dec', 'err_dec',
                    'peak_flux', 'err_peak_flux', 'int_flux', 'err_int_flux', 'a', 'err_a', 'b', 'err_b', 'pa', 'err_pa',
                    'flags', 'residual_mean', 'residual_std', 'uuid', 'psf_a', 'psf_b', 'psf_pa']


def as_row(src, fields=COMPONENT_FIELDS):
    out = {}
    for k in fields:
        v = getattr(src, k, None)
        if hasattr(v, 'item'):
            try:
                v = v.item()
            except Exception:
                pass
        out[k] = v
    return out


def _fin(v):
    try:
        return v is not None and np.isfinite(v)
    except TypeError:
        return False


def check_components(rows, violate, count, context=None):
    """rows: list of dicts (component sources).  violate(clause, witness), count(name, k)"""
    ctx = context or {}
    seen = {}
    uu = {}
    by_island = {}
    for r in rows:
        key = (r['island'], r['source'])
        if key in seen:
            violate('duplicate_island_source', dict(ctx, key=list(key), rows=[seen[key], r]))
        seen[key] = r
        if r.get('uuid') is not None:
            if r['uuid'] in uu:
                violate('duplicate_uuid', dict(ctx, uuid=r['uuid']))
            uu[r['uuid']] = r
        by_island.setdefault(r['island'], []).append(r['source'])
    for isl, srcs in by_island.items():
        if sorted(srcs) != list(range(len(srcs))):
            violate('island_sources_not_0_to_n', dict(ctx, island=isl, sources=sorted(srcs)))
    count('rows_checked', len(rows))
    for r in rows:
        w = dict(ctx, row=r)
        fl = r['flags']
        if not isinstance(fl, (int, np.integer)) and not (isinstance(fl, float) and float(fl).is_integer()):
            violate('flags_not_integer', w)
            continue
        fl = int(fl)
        if fl & ~FLAG_MASK:
            violate('flags_undocumented_bits', w)
        a, b, pa, ra, dec = r['a'], r['b'], r['pa'], r['ra'], r['dec']
        if not (_fin(a) and _fin(b) and a >= b > 0):
            if not (fl & WCSERR):
                violate('a_ge_b_gt_0', w)
        if not (_fin(pa) and -90 < pa <= 90):
            if not (fl & WCSERR):
                violate('pa_range', w)
        if not (_fin(ra) and 0 <= ra < 360):
            if not (fl & WCSERR):
                violate('ra_range', w)
        if not (_fin(dec) and -90 <= dec <= 90):
            if not (fl & WCSERR):
                violate('dec_range', w)
        if not fl & (NOTFIT | FITERR | WCSERR):
            count('fitted_rows')
            for e in ERRS:
                v = r.get(e)
                if not (_fin(v) and (v > 0 or v == -1)):
                    violate('err_positive_finite_or_minus1', dict(w, column=e, value=repr(v)))
        # strings
        if _fin(ra) and _fin(dec) and isinstance(r.get('ra_str'), str) and isinstance(r.get('dec_str'), str):
            ok1, p1, v1 = sexa.parse_hms(r['ra_str'])
            ok2, p2, v2 = sexa.parse_dms(r['dec_str'])
            if not ok1 or not ok2:
                violate('sexagesimal_fields', dict(w, problems=p1 + p2))
            else:
                d1 = (v1 - Fraction(float(ra)) * 240) % 86400
                d1 = min(d1, 86400 - d1)
                d2 = abs(v2 - Fraction(float(dec)) * 3600)
                count('strings_checked')
                if d1 > Fraction(75, 10000) or d2 > Fraction(75, 10000):
                    violate('strings_disagree_with_coordinates', dict(w, ra_err_s=float(d1), dec_err_arcsec=float(d2)))
        # integrated flux
        pk, itg, pa_, pb_ = r.get('peak_flux'), r.get('int_flux'), r.get('psf_a'), r.get('psf_b')
        if _fin(pk) and _fin(itg) and _fin(pa_) and _fin(pb_) and pa_ > 0 and pb_ > 0 and _fin(a) and _fin(b) and pk != 0:
            want = pk * a * b / (pa_ * pb_)
            count('int_flux_checked')
            if abs(itg - want) > 0.01 * abs(want):
                violate('int_flux_vs_peak_a_b', dict(w, expected=want))
    return seen
