"""Nested-HEALPix pixel arithmetic on plain Python ints: the oracle's arithmetic for C08/C10/C12.

A *level* (depth, order) d has 12*4**d pixels (nside = 2**d); nested ids have the property that the children of pixel p
one level down are 4p..4p+3, so k levels down they are range(p*4**k, (p+1)*4**k) and the ancestor k levels up is p >> 2k.
A multi-level description {level: ids} stands for the union of the deepest-level descendants of all its pixels.

Nothing here imports AegeanTools.  healpy is used only in selfcheck() to cross-check the arithmetic geometrically.
"""
import math
from fractions import Fraction

FULL_SKY_SR = 4 * math.pi
DEG2_PER_SR = (180.0 / math.pi) ** 2


def npix(d):
    return 12 * 4 ** d


def children(p, k):
    """descendants of pixel p, k levels down (a range object)"""
    return range(p * 4 ** k, (p + 1) * 4 ** k)


def parent(p, k):
    """ancestor of pixel p, k levels up"""
    return p >> (2 * k)


def pixarea(d, degrees=True):
    a = FULL_SKY_SR / npix(d)
    return a * DEG2_PER_SR if degrees else a


def is_integral(p):
    """judged by value: 12, 12.0, numpy.int64(12), numpy.float64(12.0) are integers; 32.5, nan, 'a' are not"""
    try:
        f = float(p)
    except (TypeError, ValueError):
        return False
    return f == f and f not in (float('inf'), float('-inf')) and f.is_integer()


def to_levels(pixeldict):
    """Copy a {level: iterable-of-ids} mapping into ({level: set(int)}, problems).

    problems lists ids that are not integer valued (kept out of the int sets) - callers judge them.
    The input is only iterated, never modified."""
    out = {}
    bad = []
    for d, pixels in pixeldict.items():
        pixels = list(pixels)
        if len(pixels) > 64:
            fast = _to_int_set_fast(pixels)
            if fast is not None:
                out[int(d)] = fast
                continue
        s = set()
        for p in pixels:
            if is_integral(p):
                s.add(int(float(p)) if not isinstance(p, int) else p)
            else:
                bad.append((d, repr(p)))
        out[int(d)] = s
    return out, bad


def _to_int_set_fast(pixels):
    """bulk path for large levels: all ids integer valued -> set of int, else None (the slow path then names them)"""
    import numpy as np
    try:
        arr = np.fromiter(pixels, dtype=float, count=len(pixels))
    except (TypeError, ValueError):
        return None
    if not (np.isfinite(arr).all() and (arr == np.floor(arr)).all() and (np.abs(arr) < 2.0 ** 52).all()):
        return None
    return set(arr.astype(np.int64).tolist())


def id_problems(levels, maxdepth):
    """ids outside [0, 12*4**d), non-empty levels outside 1..maxdepth"""
    probs = []
    for d, s in levels.items():
        if not s:
            continue
        if d < 0 or d > maxdepth:
            probs.append({'kind': 'level_out_of_range', 'level': d, 'n': len(s)})
            continue
        n = npix(d)
        out = [p for p in s if p < 0 or p >= n]
        if out:
            probs.append({'kind': 'id_out_of_range', 'level': d, 'ids': sorted(out)[:5], 'n': len(out)})
    return probs


def overlap_problems(levels):
    """a stored pixel whose ancestor is stored too (the same sky represented twice).  Duplicates within one level cannot
    exist in a set; by-value duplicates (12 and 12.0) are merged by to_levels and reported by count there."""
    probs = []
    ds = sorted(d for d, s in levels.items() if s)
    for i, d in enumerate(ds):
        for e in ds[:i]:
            sh = 2 * (d - e)
            up = levels[e]
            hit = [p for p in levels[d] if (p >> sh) in up]
            if hit:
                probs.append({'kind': 'ancestor_and_descendant_stored', 'ancestor_level': e, 'level': d,
                              'n': len(hit), 'example': [hit[0] >> sh, hit[0]]})
    return probs


def n_mergeable(levels, lowest=1):
    """number of complete sibling quadruples stored (not a violation: the sky is still represented once)"""
    n = 0
    for d, s in levels.items():
        if d <= lowest:
            continue
        for p in s:
            if p % 4 == 0 and p + 1 in s and p + 2 in s and p + 3 in s:
                n += 1
    return n


def expand(levels, maxdepth):
    """deepest-level set of a {level: set(int)} description (levels deeper than maxdepth are degraded)"""
    out = set()
    for d, s in levels.items():
        if not s:
            continue
        if d == maxdepth:
            out |= s
        elif d < maxdepth:
            k = maxdepth - d
            for p in s:
                out.update(children(p, k))
        else:
            k = d - maxdepth
            out.update(p >> (2 * k) for p in s)
    return out


def change_depth(pixels, d_from, d_to):
    """a deepest-level set re-expressed at another depth: refined exactly, or degraded to every pixel touched"""
    if d_to == d_from:
        return set(pixels)
    if d_to > d_from:
        k = d_to - d_from
        out = set()
        for p in pixels:
            out.update(children(p, k))
        return out
    k = d_from - d_to
    return {p >> (2 * k) for p in pixels}


def represented_area(levels, degrees=True):
    """area as the description counts it (every stored pixel once, overlaps counted twice); exact rational x pi"""
    tot = Fraction(0)
    for d, s in levels.items():
        tot += Fraction(len(s), npix(d))
    a = float(tot) * FULL_SKY_SR
    return a * DEG2_PER_SR if degrees else a


def set_area(n, d, degrees=True):
    a = (n / npix(d)) * FULL_SKY_SR
    return a * DEG2_PER_SR if degrees else a


# ------------------------------------------------------------------------------------ NUNIQ (IVOA MOC 1.1, section 2.3.1)
def uniq_encode(order, ipix):
    return 4 * 4 ** order + ipix


def uniq_decode(u):
    """uniq = 4*4**order + ipix with 0 <= ipix < 12*4**order  =>  4*4**order <= uniq < 16*4**order, so the order is
    fixed by the bit length: bit_length(4*4**o) = 2o+3, bit_length(16*4**o - 1) = 2o+4."""
    u = int(u)
    if u < 4:
        raise ValueError('not a NUNIQ value: %r' % u)
    order = (u.bit_length() - 3) // 2
    return order, u - 4 * 4 ** order


def decode_moc(uniqs):
    """-> ({order: set(ipix)}, problems)"""
    levels = {}
    probs = []
    seen = set()
    for u in uniqs:
        u = int(u)
        if u in seen:
            probs.append({'kind': 'duplicate_uniq', 'uniq': u})
            continue
        seen.add(u)
        try:
            o, p = uniq_decode(u)
        except ValueError:
            probs.append({'kind': 'not_uniq', 'uniq': u})
            continue
        if not (0 <= p < npix(o)):
            probs.append({'kind': 'ipix_out_of_range', 'uniq': u, 'order': o, 'ipix': p})
            continue
        levels.setdefault(o, set()).add(p)
    return levels, probs


# ------------------------------------------------------------------------------------ self check
_checked = False


def selfcheck():
    """Cross-check the level arithmetic against healpy's geometry and the NUNIQ decode against its definition.
    Raises RuntimeError('oracle fault ...')."""
    global _checked
    if _checked:
        return
    import numpy as np
    import healpy as hp
    rng = np.random.default_rng(12345)
    for d in (0, 1, 2, 5, 9, 12):
        n = npix(d)
        if n != hp.nside2npix(2 ** d):
            raise RuntimeError('oracle fault: npix(%d)' % d)
        if abs(pixarea(d, degrees=True) - hp.nside2pixarea(2 ** d, degrees=True)) > 1e-12 * pixarea(d):
            raise RuntimeError('oracle fault: pixarea(%d)' % d)
        ps = rng.integers(0, n, 40)
        for k in (1, 2, 3):
            if d + k > 13:
                continue
            for p in ps:
                p = int(p)
                ch = np.array(list(children(p, k)))
                # the centre of every descendant lies in p; the ancestor of every descendant is p
                x, y, z = hp.pix2vec(2 ** (d + k), ch, nest=True)
                back = hp.vec2pix(2 ** d, x, y, z, nest=True)
                if not np.all(back == p) or any(parent(int(c), k) != p for c in ch):
                    raise RuntimeError('oracle fault: children/parent at level %d+%d pixel %d' % (d, k, p))
    for o in range(0, 14):
        for p in (0, 1, npix(o) // 2, npix(o) - 1):
            u = uniq_encode(o, p)
            if uniq_decode(u) != (o, p):
                raise RuntimeError('oracle fault: uniq decode (%d,%d)' % (o, p))
            # definition of the standard: order = floor(log2(uniq/4)/2)
            if int(math.floor(math.log2(u / 4.0) / 2 + 1e-12)) != o:
                raise RuntimeError('oracle fault: uniq order (%d,%d)' % (o, p))
    if uniq_encode(0, 0) != 4 or uniq_encode(1, 0) != 16 or uniq_encode(2, 5) != 69:
        raise RuntimeError('oracle fault: uniq encode constants')
    lv = {1: {0}, 2: {16, 3}, 3: {12, 200}}
    # pixel 0 at level 1 covers 0..3 at level 2 and 0..15 at level 3: 3@2 is inside 0@1, 12@3 inside 0@1 and inside 3@2
    if len(overlap_problems(lv)) != 3:
        raise RuntimeError('oracle fault: overlap detection')
    if expand(lv, 3) != set(range(0, 16)) | set(range(64, 68)) | {200} | set(range(12, 16)):
        raise RuntimeError('oracle fault: expand')
    if change_depth({17, 18, 40}, 3, 2) != {4, 10} or change_depth({4}, 2, 3) != {16, 17, 18, 19}:
        raise RuntimeError('oracle fault: change_depth')
    if not is_integral(12.0) or is_integral(32.5) or is_integral(float('nan')):
        raise RuntimeError('oracle fault: is_integral')
    _checked = True
