"""Sky-plane elliptical Gaussian renderer.  No AegeanTools code takes part.

A source = dict(ra, dec [deg], peak, a, b [FWHM arcsec], pa [deg east of north]).
For every pixel: sky position from refs.wcs_zenithal, tangent-plane (east, north) offsets about the source
centre from refs.sphere, Gaussian evaluated with FWHM a along PA and b across it.
"""
import numpy as np

from aegmon.refs import sphere

FWHM2SIG = 1.0 / (2.0 * np.sqrt(2.0 * np.log(2.0)))


def gaussian_at(src, ra, dec):
    e, n = sphere.tangent_offsets(src['ra'], src['dec'], ra, dec)
    e = e * 3600.0
    n = n * 3600.0
    pa = np.radians(src['pa'])
    u = e * np.sin(pa) + n * np.cos(pa)       # along the major axis
    v = e * np.cos(pa) - n * np.sin(pa)       # along the minor axis
    sa = src['a'] * FWHM2SIG
    sb = src['b'] * FWHM2SIG
    return src['peak'] * np.exp(-0.5 * ((u / sa) ** 2 + (v / sb) ** 2))


def render(zwcs, shape, sources, nsigma=None):
    """image[rows, cols] (float64) of the sum of the sources; nsigma limits each source to a box (speed)"""
    img = np.zeros(shape, dtype=float)
    rows, cols = shape
    for s in sources:
        if nsigma is None:
            i0, i1, j0, j1 = 0, rows, 0, cols
        else:
            ic, jc = zwcs.sky2index(s['ra'], s['dec'])
            # local pixel scale from the header (deg/pixel)
            sc = np.sqrt(abs(np.linalg.det(zwcs.cd)))
            half = int(np.ceil(nsigma * s['a'] * FWHM2SIG / 3600.0 / sc)) + 2
            i0, i1 = max(0, int(np.floor(ic)) - half), min(rows, int(np.ceil(ic)) + half + 1)
            j0, j1 = max(0, int(np.floor(jc)) - half), min(cols, int(np.ceil(jc)) + half + 1)
            if i0 >= i1 or j0 >= j1:
                continue
        ii, jj = np.mgrid[i0:i1, j0:j1]
        ra, dec = zwcs.index2sky(ii, jj)
        img[i0:i1, j0:j1] += gaussian_at(s, ra, dec)
    return img


def correlated_noise(rng, shape, sigma, kernel_sigma_pix=None, kernel_pa=0.0):
    """Gaussian noise of rms sigma; optionally convolved with an elliptical Gaussian kernel
    (kernel_sigma_pix = (s_major, s_minor) in pixels, pa in degrees from +row axis toward +col) and
    renormalised to rms sigma"""
    w = rng.normal(0.0, 1.0, shape)
    if kernel_sigma_pix is None:
        return w * sigma
    rows, cols = shape
    fy = np.fft.fftfreq(rows)[:, None]
    fx = np.fft.fftfreq(cols)[None, :]
    t = np.radians(kernel_pa)
    fu = fy * np.cos(t) + fx * np.sin(t)
    fv = -fy * np.sin(t) + fx * np.cos(t)
    sm, sn = kernel_sigma_pix
    H = np.exp(-2 * np.pi ** 2 * ((fu * sm) ** 2 + (fv * sn) ** 2))
    out = np.fft.ifft2(np.fft.fft2(w) * H).real
    out *= sigma / np.sqrt(np.mean(H ** 2))
    return out
