"""Strict sexagesimal field checker / parser (independent of AegeanTools.angle_tools)."""
import re
from fractions import Fraction

_DMS = re.compile(r'^([+-])(\d{2,3}):(\d{2}):(\d{2}\.\d{2})$')
_HMS = re.compile(r'^(\d{2}):(\d{2}):(\d{2}\.\d{2})$')


def parse_dms(s):
    """-> (ok, problems, value in arcsec as Fraction or None)"""
    m = _DMS.match(s)
    if not m:
        return False, ['malformed %r' % s], None
    sign, d, mi, sec = m.group(1), int(m.group(2)), int(m.group(3)), Fraction(m.group(4))
    probs = []
    if mi >= 60:
        probs.append('minutes %d >= 60' % mi)
    if sec >= 60:
        probs.append('seconds %s >= 60' % m.group(4))
    val = d * 3600 + mi * 60 + sec
    if val > 90 * 3600:
        probs.append('|dec| > 90')
    if sign == '-':
        val = -val
    return (not probs), probs, val


def parse_hms(s):
    """-> (ok, problems, value in seconds of time as Fraction or None)"""
    m = _HMS.match(s)
    if not m:
        return False, ['malformed %r' % s], None
    h, mi, sec = int(m.group(1)), int(m.group(2)), Fraction(m.group(3))
    probs = []
    if h >= 24:
        probs.append('hours %d >= 24' % h)
    if mi >= 60:
        probs.append('minutes %d >= 60' % mi)
    if sec >= 60:
        probs.append('seconds %s >= 60' % m.group(3))
    return (not probs), probs, h * 3600 + mi * 60 + sec
