"""Membership of sky positions in a Region *without* calling any Region method.

A region's content is read from a (deep copy of a) `pixeldict` {level: set of nested pixel ids}.  A pixel p stored at
level d covers, at the deepest level D >= d, the contiguous id interval [p * 4**(D-d), (p+1) * 4**(D-d))  (nested
numbering: the children of p are 4p .. 4p+3).  The content is therefore kept as a sorted list of disjoint
half-open integer intervals at level D and membership is a binary search; nothing is ever expanded into a pixel set, and
the region object is never touched (no demotion, no cache).

The cell of a position is healpy.ang2pix(2**D, lon, lat, nest=True, lonlat=True) (healpy is in the trusted base; the
subject goes through its own sky2ang/theta-phi path).  `stable_cell` returns the cell and whether the four points
`eps` degrees around the position fall in the same cell: a position closer than that to a cell edge is *undetermined*,
because two correct double-precision WCS computations can put it on either side.
"""
import copy

import healpy as hp
import numpy as np


class BadPixelDict(RuntimeError):
    """the region holds something that is not a nested pixel id of its level (not this oracle's business: C08)"""


def intervals(pixeldict, maxdepth, ignore_deeper=False):
    """-> (lo, hi) int64 arrays, sorted, disjoint, merged; ids are those of level `maxdepth`.
    ignore_deeper: levels below maxdepth (which no Region query ever looks at) are skipped instead of refused."""
    pd = copy.deepcopy(pixeldict)
    los, his = [], []
    for d, pixels in pd.items():
        if len(pixels) == 0:
            continue
        if ignore_deeper and isinstance(d, (int, np.integer)) and d > maxdepth:
            continue
        if not (isinstance(d, (int, np.integer)) and 0 <= d <= maxdepth):
            raise BadPixelDict('level %r outside 0..%d holds %d pixels' % (d, maxdepth, len(pixels)))
        raw = np.array(sorted(float(p) for p in pixels), dtype=float)
        if not np.all(raw == np.floor(raw)):
            raise BadPixelDict('fractional pixel id at level %d' % d)
        ids = raw.astype(np.int64)
        if ids[0] < 0 or ids[-1] >= 12 * 4 ** int(d):
            raise BadPixelDict('pixel id out of range at level %d' % d)
        k = 4 ** (maxdepth - int(d))
        los.append(ids * k)
        his.append((ids + 1) * k)
    if not los:
        return np.zeros(0, dtype=np.int64), np.zeros(0, dtype=np.int64)
    lo = np.concatenate(los)
    hi = np.concatenate(his)
    order = np.argsort(lo, kind='stable')
    lo, hi = lo[order], hi[order]
    # merge overlapping / touching intervals (overlap = a pixel and its descendant both stored; allowed here)
    run_hi = np.maximum.accumulate(hi)
    new = np.ones(len(lo), dtype=bool)
    new[1:] = lo[1:] > run_hi[:-1]
    starts = np.flatnonzero(new)
    mlo = lo[starts]
    mhi = np.maximum.reduceat(hi, starts)
    return mlo, mhi


def n_deepest(iv):
    lo, hi = iv
    return int((hi - lo).sum())


def member(iv, cells):
    """boolean array: is each deepest-level cell id inside one of the intervals"""
    lo, hi = iv
    cells = np.asarray(cells, dtype=np.int64)
    if len(lo) == 0:
        return np.zeros(cells.shape, dtype=bool)
    k = np.searchsorted(lo, cells, side='right') - 1
    ok = k >= 0
    kk = np.where(ok, k, 0)
    return ok & (cells < hi[kk])


def cell(ra_deg, dec_deg, depth):
    return hp.ang2pix(2 ** depth, np.asarray(ra_deg, dtype=float), np.asarray(dec_deg, dtype=float),
                      nest=True, lonlat=True)


def stable_cell(ra_deg, dec_deg, depth, eps=1e-7):
    """-> (cell, stable): stable is False for non-finite positions and for positions within eps deg of a cell edge"""
    ra = np.atleast_1d(np.asarray(ra_deg, dtype=float))
    dec = np.atleast_1d(np.asarray(dec_deg, dtype=float))
    fin = np.isfinite(ra) & np.isfinite(dec) & (np.abs(dec) <= 90)
    r = np.where(fin, ra, 0.0)
    d = np.where(fin, dec, 0.0)
    c0 = cell(r, d, depth)
    stable = fin.copy()
    cosd = np.maximum(np.cos(np.radians(d)), 1e-6)
    for dr, dd in ((eps, 0.0), (-eps, 0.0), (0.0, eps), (0.0, -eps)):
        d2 = np.clip(d + dd, -90.0, 90.0)
        c = cell(r + dr / cosd, d2, depth)
        stable &= (c == c0)
    # a position closer than eps to a pole has no meaningful "around"
    stable &= (np.abs(d) <= 90 - 2 * eps)
    return c0, stable


def deepest_ids(iv, cap=2_000_000):
    """explicit id array (only for small regions; used by monitors that want to look at every pixel)"""
    lo, hi = iv
    if n_deepest(iv) > cap:
        raise ValueError('region too large to enumerate')
    if len(lo) == 0:
        return np.zeros(0, dtype=np.int64)
    return np.concatenate([np.arange(a, b, dtype=np.int64) for a, b in zip(lo, hi)])


def selfcheck():
    """the interval arithmetic against healpy's own nested hierarchy: the centre of a deep pixel q lies in the
    level-d pixel q >> 2(D-d); and a hand-made dict"""
    rng = np.random.default_rng(7)
    D = 9
    for d in (1, 2, 5, 9):
        q = rng.integers(0, 12 * 4 ** D, 500)
        lon, lat = hp.pix2ang(2 ** D, q, nest=True, lonlat=True)
        par = hp.ang2pix(2 ** d, lon, lat, nest=True, lonlat=True)
        if not np.array_equal(par, q >> (2 * (D - d))):
            raise RuntimeError('oracle fault: nested parent arithmetic disagrees with healpy at level %d' % d)
        iv = intervals({d: set(int(x) for x in par[:50])}, D)
        if not member(iv, q[:50]).all():
            raise RuntimeError('oracle fault: interval membership misses a descendant')
        others = q[~np.isin(q >> (2 * (D - d)), par[:50])]
        if member(iv, others).any():
            raise RuntimeError('oracle fault: interval membership accepts a non-descendant')
    iv = intervals({1: {0.0}, 2: {4, 5, 17}, 3: {67, 3}}, 3)
    want = set(range(0, 16)) | set(range(16, 24)) | set(range(68, 72)) | {67}
    got = set(int(x) for x in deepest_ids(iv))
    if got != want or n_deepest(iv) != len(want):
        raise RuntimeError('oracle fault: interval expansion of a hand-made pixeldict is wrong')
    c, st = stable_cell([10.0, np.nan, 0.0], [20.0, 0.0, 90.0], 6)
    if not (st[0] and not st[1] and not st[2]):
        raise RuntimeError('oracle fault: stable_cell classification')
    return True
