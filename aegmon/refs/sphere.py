"""Independent spherical geometry (unit vectors + atan2); degrees in/out.  No AegeanTools code."""
import numpy as np


def vec(ra, dec):
    ra = np.radians(np.asarray(ra, dtype=float))
    dec = np.radians(np.asarray(dec, dtype=float))
    c = np.cos(dec)
    return np.stack([c * np.cos(ra), c * np.sin(ra), np.sin(dec)], axis=-1)


def sep(ra1, dec1, ra2, dec2):
    """angular separation by atan2(|a x b|, a.b): accurate at every separation"""
    a = vec(ra1, dec1)
    b = vec(ra2, dec2)
    cr = np.cross(a, b)
    return np.degrees(np.arctan2(np.sqrt((cr * cr).sum(axis=-1)), (a * b).sum(axis=-1)))


def sep_vincenty(ra1, dec1, ra2, dec2):
    """second, algebraically different form (Vincenty special case) used to cross-check sep()"""
    l = np.radians(np.asarray(ra2, dtype=float) - np.asarray(ra1, dtype=float))
    p1 = np.radians(np.asarray(dec1, dtype=float))
    p2 = np.radians(np.asarray(dec2, dtype=float))
    num = np.hypot(np.cos(p2) * np.sin(l), np.cos(p1) * np.sin(p2) - np.sin(p1) * np.cos(p2) * np.cos(l))
    den = np.sin(p1) * np.sin(p2) + np.cos(p1) * np.cos(p2) * np.cos(l)
    return np.degrees(np.arctan2(num, den))


def position_angle(ra1, dec1, ra2, dec2):
    """position angle of point 2 seen from point 1, east of north, in (-180, 180].
    Built from the local (east, north) tangent basis at point 1, not from the textbook formula."""
    a = vec(ra1, dec1)
    b = vec(ra2, dec2)
    r1 = np.radians(np.asarray(ra1, dtype=float))
    d1 = np.radians(np.asarray(dec1, dtype=float))
    east = np.stack([-np.sin(r1), np.cos(r1), np.zeros_like(r1)], axis=-1)
    north = np.stack([-np.sin(d1) * np.cos(r1), -np.sin(d1) * np.sin(r1), np.cos(d1)], axis=-1)
    e = (b * east).sum(axis=-1)
    n = (b * north).sum(axis=-1)
    return np.degrees(np.arctan2(e, n))


def destination(ra, dec, r, theta):
    """point at distance r (deg) along initial bearing theta (deg east of north)"""
    a = vec(ra, dec)
    r1 = np.radians(np.asarray(ra, dtype=float))
    d1 = np.radians(np.asarray(dec, dtype=float))
    east = np.stack([-np.sin(r1), np.cos(r1), np.zeros_like(r1)], axis=-1)
    north = np.stack([-np.sin(d1) * np.cos(r1), -np.sin(d1) * np.sin(r1), np.cos(d1)], axis=-1)
    t = np.radians(np.asarray(theta, dtype=float))[..., None]
    rr = np.radians(np.asarray(r, dtype=float))[..., None]
    dirn = np.cos(t) * north + np.sin(t) * east
    p = np.cos(rr) * a + np.sin(rr) * dirn
    return radec(p)


def radec(v):
    v = np.asarray(v, dtype=float)
    ra = np.degrees(np.arctan2(v[..., 1], v[..., 0])) % 360.0
    dec = np.degrees(np.arctan2(v[..., 2], np.hypot(v[..., 0], v[..., 1])))
    return ra, dec


def tangent_offsets(ra0, dec0, ra, dec):
    """(east, north) offsets in degrees of (ra,dec) about (ra0,dec0): angular distance along the
    great circle times (sin, cos) of the position angle -- i.e. azimuthal-equidistant offsets"""
    s = sep(ra0, dec0, ra, dec)
    pa = np.radians(position_angle(ra0, dec0, ra, dec))
    return s * np.sin(pa), s * np.cos(pa)


def angdiff(a, b, period=360.0):
    d = (np.asarray(a, dtype=float) - np.asarray(b, dtype=float)) % period
    return np.where(d > period / 2, d - period, d)


def selfcheck():
    rng = np.random.default_rng(1)
    ra1, ra2 = rng.uniform(0, 360, (2, 2000))
    d1, d2 = np.degrees(np.arcsin(rng.uniform(-1, 1, (2, 2000))))
    assert np.max(np.abs(sep(ra1, d1, ra2, d2) - sep_vincenty(ra1, d1, ra2, d2))) < 1e-11
    r = rng.uniform(0.001, 179, 2000)
    t = rng.uniform(0, 360, 2000)
    ra3, d3 = destination(ra1, d1, r, t)
    assert np.max(np.abs(sep(ra1, d1, ra3, d3) - r)) < 1e-11
    assert np.max(np.abs(angdiff(position_angle(ra1, d1, ra3, d3), t)) * np.sin(np.radians(r))) < 1e-10
    return True
