"""Independent FITS celestial WCS for the zenithal projections SIN/TAN/ZEA/ARC/STG (FITS paper II),
without astropy.  Formulated geometrically rather than with the paper's Euler-angle formulas:

  intermediate coordinates (x east, y north, degrees) = CD . (p - CRPIX),  p 1-based FITS pixel
  R = hypot(x, y), position angle psi = atan2(x, y) (east of north, because LONPOLE = 180 for delta0 < 90)
  angular distance rho from the reference point:  TAN R=tan rho, SIN R=sin rho, ZEA R=2 sin(rho/2),
                                                  ARC R=rho,     STG R=2 tan(rho/2)   (R in radians)
  sky = point at distance rho along bearing psi from CRVAL      (aegmon.refs.sphere.destination)

Only rotation-free or CD headers with |CRVAL2| < 90 are supported (that is the properties' domain).
"""
import numpy as np

from aegmon.refs import sphere

PROJECTIONS = ('SIN', 'TAN', 'ZEA', 'ARC', 'STG')


def _rho_of_R(proj, R):
    """R in radians -> rho in radians"""
    if proj == 'TAN':
        return np.arctan(R)
    if proj == 'SIN':
        return np.arcsin(np.clip(R, -1, 1))
    if proj == 'ZEA':
        return 2 * np.arcsin(np.clip(R / 2, -1, 1))
    if proj == 'ARC':
        return R
    if proj == 'STG':
        return 2 * np.arctan(R / 2)
    raise ValueError(proj)


def _R_of_rho(proj, rho):
    if proj == 'TAN':
        return np.tan(rho)
    if proj == 'SIN':
        return np.sin(rho)
    if proj == 'ZEA':
        return 2 * np.sin(rho / 2)
    if proj == 'ARC':
        return rho
    if proj == 'STG':
        return 2 * np.tan(rho / 2)
    raise ValueError(proj)


class ZenithalWCS:
    def __init__(self, header):
        h = header
        ct1, ct2 = str(h['CTYPE1']), str(h['CTYPE2'])
        if not (ct1.startswith('RA--') and ct2.startswith('DEC-')):
            raise ValueError('only RA/DEC axis order supported: %s %s' % (ct1, ct2))
        self.proj = ct1[-3:]
        if self.proj not in PROJECTIONS or ct2[-3:] != self.proj:
            raise ValueError('unsupported projection %s/%s' % (ct1, ct2))
        self.crpix = (float(h['CRPIX1']), float(h['CRPIX2']))
        self.crval = (float(h['CRVAL1']), float(h['CRVAL2']))
        if 'CD1_1' in h:
            self.cd = np.array([[h['CD1_1'], h.get('CD1_2', 0.0)], [h.get('CD2_1', 0.0), h['CD2_2']]], dtype=float)
        else:
            self.cd = np.array([[h['CDELT1'], 0.0], [0.0, h['CDELT2']]], dtype=float)
            if 'CROTA2' in h and float(h['CROTA2']) != 0.0:
                raise ValueError('CROTA2 not supported')
        for k in ('PV2_1', 'PV2_2', 'LONPOLE', 'LATPOLE'):
            if k in h and not (k == 'LONPOLE' and float(h[k]) == 180.0) and float(h[k]) != 0.0:
                raise ValueError('%s not supported' % k)
        self.cdinv = np.linalg.inv(self.cd)

    # p1 = FITS axis-1 (column) pixel, p2 = FITS axis-2 (row) pixel, both 1-based
    def pix2sky(self, p1, p2):
        p1 = np.asarray(p1, dtype=float)
        p2 = np.asarray(p2, dtype=float)
        d1 = p1 - self.crpix[0]
        d2 = p2 - self.crpix[1]
        x = self.cd[0, 0] * d1 + self.cd[0, 1] * d2
        y = self.cd[1, 0] * d1 + self.cd[1, 1] * d2
        R = np.radians(np.hypot(x, y))
        psi = np.degrees(np.arctan2(x, y))
        rho = np.degrees(_rho_of_R(self.proj, R))
        return sphere.destination(self.crval[0], self.crval[1], rho, psi)

    def sky2pix(self, ra, dec):
        rho = np.radians(sphere.sep(self.crval[0], self.crval[1], ra, dec))
        psi = np.radians(sphere.position_angle(self.crval[0], self.crval[1], ra, dec))
        R = np.degrees(_R_of_rho(self.proj, rho))
        x = R * np.sin(psi)
        y = R * np.cos(psi)
        d1 = self.cdinv[0, 0] * x + self.cdinv[0, 1] * y
        d2 = self.cdinv[1, 0] * x + self.cdinv[1, 1] * y
        return d1 + self.crpix[0], d2 + self.crpix[1]

    # convenience for numpy array indices: data[i, j]  <->  FITS pixel (j+1, i+1)
    def index2sky(self, i, j):
        return self.pix2sky(np.asarray(j, dtype=float) + 1, np.asarray(i, dtype=float) + 1)

    def sky2index(self, ra, dec):
        p1, p2 = self.sky2pix(ra, dec)
        return p2 - 1, p1 - 1


def make_header(proj='SIN', crval=(180.0, -30.0), crpix=(50.0, 50.0), cdelt=(-0.01, 0.01), shape=(100, 100),
                beam=None, use_cd=False):
    """a minimal astropy header (rows, cols = shape); beam = (bmaj, bmin, bpa) degrees"""
    from astropy.io import fits
    h = fits.Header()
    h['SIMPLE'] = True
    h['BITPIX'] = -32
    h['NAXIS'] = 2
    h['NAXIS1'] = int(shape[1])
    h['NAXIS2'] = int(shape[0])
    h['CTYPE1'] = 'RA---' + proj
    h['CTYPE2'] = 'DEC--' + proj
    h['CRVAL1'] = float(crval[0])
    h['CRVAL2'] = float(crval[1])
    h['CRPIX1'] = float(crpix[0])
    h['CRPIX2'] = float(crpix[1])
    if use_cd:
        h['CD1_1'] = float(cdelt[0])
        h['CD1_2'] = 0.0
        h['CD2_1'] = 0.0
        h['CD2_2'] = float(cdelt[1])
    else:
        h['CDELT1'] = float(cdelt[0])
        h['CDELT2'] = float(cdelt[1])
    h['CUNIT1'] = 'deg'
    h['CUNIT2'] = 'deg'
    h['EQUINOX'] = 2000.0
    h['RADESYS'] = 'FK5'
    h['BUNIT'] = 'JY/BEAM'
    if beam is not None:
        h['BMAJ'] = float(beam[0])
        h['BMIN'] = float(beam[1])
        h['BPA'] = float(beam[2])
    return h


def selfcheck():
    """cross-check against astropy.wcs on a fixed grid; failure is an oracle fault, never a violation"""
    from astropy.wcs import WCS
    worst = 0.0
    for proj in PROJECTIONS:
        for crval in ((180.0, -30.0), (359.99, 85.0), (0.0, -80.0), (12.3, 0.0)):
            for cd in ((-0.01, 0.01), (0.003, 0.003), (-1 / 60., -1 / 60.)):
                h = make_header(proj, crval, (20.3, 31.7), cd, (64, 48))
                w = WCS(h, naxis=2)
                z = ZenithalWCS(h)
                p1, p2 = np.meshgrid(np.linspace(-10, 80, 7), np.linspace(-20, 90, 7))
                sky = w.wcs_pix2world(np.column_stack([p1.ravel(), p2.ravel()]), 1)
                ra, dec = z.pix2sky(p1.ravel(), p2.ravel())
                d = sphere.sep(sky[:, 0], sky[:, 1], ra, dec)
                worst = max(worst, float(np.max(d)))
                q1, q2 = z.sky2pix(ra, dec)
                worst = max(worst, float(np.max(np.hypot(q1 - p1.ravel(), q2 - p2.ravel()))) * abs(cd[0]))
    if not worst < 1e-10:
        raise RuntimeError('oracle fault: independent WCS disagrees with astropy.wcs by %g deg' % worst)
    return worst
