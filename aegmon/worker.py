"""Child process: runs a batch of cases of one property against /repo's working tree."""
import faulthandler
import importlib
import json
import os
import sys
import time
import traceback

REPO = os.environ.get('AEGMON_REPO', '/repo')


def _assert_subject():
    import AegeanTools
    p = os.path.realpath(AegeanTools.__file__)
    root = os.path.realpath(REPO)
    if not p.startswith(root + os.sep):
        raise RuntimeError('AegeanTools imported from %s, not from %s' % (p, root))


def run_one(mod, case):
    """Run one case; harness exceptions become verdict=error (inconclusive), never a violation."""
    t = time.time()
    import logging
    dbg = isinstance(case, dict) and case.get('_debug_logging')
    root = logging.getLogger()
    old_level = root.level
    if dbg:
        # a configuration that must never change a result: every logger of the subject reports isEnabledFor(DEBUG), so its
        # debug-only code paths run (records still end at the last-resort handler, which only prints warnings)
        root.setLevel(logging.DEBUG)
    try:
        from aegmon import common
        common.reset_scratch()
        res = mod.run(case)
        if dbg and isinstance(res.get('counters'), dict):
            res['counters']['cases_run_with_debug_logging'] = res['counters'].get('cases_run_with_debug_logging', 0) + 1
    except Exception:
        res = {'verdict': 'error', 'error': traceback.format_exc()[-4000:]}
    finally:
        root.setLevel(old_level)
    res.setdefault('verdict', 'violated' if res.get('violations') else 'held')
    res['t'] = round(time.time() - t, 4)
    return res


def main():
    inp, out = sys.argv[1], sys.argv[2]
    faulthandler.enable()
    if REPO != '/repo' or True:
        # cwd/first path entry wins over the editable install
        sys.path.insert(0, REPO)
    _assert_subject()
    with open(inp) as f:
        job = json.load(f)
    mod = importlib.import_module('aegmon.props.' + job['prop'].lower())
    from aegmon import reach
    use_reach = getattr(mod, 'USE_REACH', True)
    if use_reach:
        reach.start(REPO)
    with open(out, 'w') as fo:
        for i, case in zip(job['idxs'], job['cases']):
            fo.write(json.dumps({'start': i}) + '\n')
            fo.flush()
            res = run_one(mod, case)
            fo.write(json.dumps({'i': i, 'result': res}, default=_default) + '\n')
            fo.flush()
        if use_reach:
            fo.write(json.dumps({'reach': reach.stop()}) + '\n')
        fo.flush()


def _default(o):
    try:
        import numpy as np
        if isinstance(o, np.generic):
            return o.item()
        if isinstance(o, np.ndarray):
            return o.tolist()
    except Exception:
        pass
    if isinstance(o, (set, frozenset, tuple)):
        return list(o)
    return str(o)


if __name__ == '__main__':
    main()
