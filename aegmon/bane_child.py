"""Grandchild process that executes a list of BANE runs (real AegeanTools.BANE.filter_image) one after another.

usage: python -m aegmon.bane_child <specs.json> <results.jsonl>

For every run it
  * points the repo hook at a per-run event log (AEGEAN_VERIF_BANE_LOG) and hands it the delay/fault plan
  * replaces BANE.SharedMemory by a subclass that records create/unlink and pre-fills new segments with a sentinel
    (inherited by the forked workers) so that never-written pixels are observable
  * records return value / exception / elapsed time, leaked /dev/shm segments, live child processes afterwards
  * saves the returned maps as .npy for bit-comparison by the parent
A SIGUSR1 makes every process of the run dump its Python stacks (faulthandler) into <results>.stacks.
"""
import faulthandler
import json
import os
import signal
import sys
import time
import traceback

import numpy as np

SENTINEL = -1.5e300


def main():
    specs_path, res_path = sys.argv[1], sys.argv[2]
    repo = os.environ.get('AEGMON_REPO', '/repo')
    sys.path.insert(0, repo)
    stacks = open(res_path + '.stacks', 'a')
    faulthandler.register(signal.SIGUSR1, file=stacks, all_threads=True, chain=False)
    import logging
    logging.disable(logging.CRITICAL)
    import multiprocessing
    from multiprocessing import shared_memory
    import AegeanTools
    assert os.path.realpath(AegeanTools.__file__).startswith(os.path.realpath(repo) + os.sep), AegeanTools.__file__
    from AegeanTools import BANE

    created = []

    class WatchedSharedMemory(shared_memory.SharedMemory):
        def __init__(self, name=None, create=False, size=0, **kw):
            super().__init__(name=name, create=create, size=size, **kw)
            if create:
                created.append(self.name)
                n = self.size // 8
                np.ndarray((n,), dtype=np.float64, buffer=self.buf)[:] = SENTINEL

    BANE.SharedMemory = WatchedSharedMemory

    with open(specs_path) as f:
        specs = json.load(f)
    out = open(res_path, 'a')
    for spec in specs:
        k = spec['k']
        out.write(json.dumps({'begin': k, 'pid': os.getpid()}) + '\n')
        out.flush()
        if spec.get('copy_from'):
            # the same path gets new content between two calls in this one process (nothing may be remembered per name)
            import shutil
            shutil.copyfile(spec['copy_from'], spec['image'])
        os.environ['AEGEAN_VERIF'] = '1'
        os.environ['AEGEAN_VERIF_BANE_LOG'] = spec['log']
        if spec.get('plan'):
            os.environ['AEGEAN_VERIF_BANE_PLAN'] = json.dumps(spec['plan'])
        else:
            os.environ.pop('AEGEAN_VERIF_BANE_PLAN', None)
        del created[:]
        rec = {'k': k}
        kw = dict(step_size=tuple(spec['grid']) if spec.get('grid') else None,
                  box_size=tuple(spec['box']) if spec.get('box') else None,
                  cores=spec.get('cores'), nslice=spec.get('nslice'), mask=spec.get('mask', True),
                  compressed=spec.get('compressed', False), cube_index=spec.get('cube_index'))
        t0 = time.monotonic()
        try:
            ret = BANE.filter_image(spec['image'], spec.get('out_base'), **kw)
            rec['status'] = 'ok'
        except BaseException as e:      # SystemExit included: filter_mc_sharemem calls sys.exit on ^C
            ret = None
            rec['status'] = 'raised'
            rec['exc_type'] = type(e).__name__
            rec['exc'] = ''.join(traceback.format_exception_only(type(e), e))[-1500:]
            rec['injected'] = 'AEGEAN_VERIF injected fault' in str(e)
        rec['t'] = time.monotonic() - t0
        # the caller has handled the exception: drop every reference to it (its traceback keeps BANE's frames and
        # hence the Pool object alive) so that only workers outliving the call's own objects count as orphans
        try:
            del e
        except NameError:
            pass
        import gc
        gc.collect()
        # give pool workers a moment to go away, then look for survivors
        deadline = time.monotonic() + 3.0
        while True:
            kids = _children(os.getpid())
            if not kids or time.monotonic() > deadline:
                break
            time.sleep(0.05)
        rec['orphans'] = kids
        rec['created'] = list(created)
        rec['leaked'] = [n for n in created if os.path.exists('/dev/shm/' + n.lstrip('/'))]
        for n in rec['leaked']:
            try:
                os.unlink('/dev/shm/' + n.lstrip('/'))      # the harness cleans up; the leak is already recorded
            except OSError:
                pass
        for pid, _ in kids:
            try:
                os.kill(pid, signal.SIGKILL)
            except OSError:
                pass
        if ret is None:
            rec['returned'] = None
        else:
            bkg, rms = ret
            rec['returned'] = {'bkg_shape': list(bkg.shape), 'rms_shape': list(rms.shape),
                               'bkg_dtype': str(bkg.dtype), 'rms_dtype': str(rms.dtype),
                               'sentinel_bkg': int(np.sum(np.isneginf(bkg)) + np.sum(bkg == np.float32(SENTINEL))),
                               'sentinel_rms': int(np.sum(np.isneginf(rms)) + np.sum(rms == np.float32(SENTINEL)))}
            if spec.get('save'):
                np.save(spec['save'] + '_bkg.npy', bkg)
                np.save(spec['save'] + '_rms.npy', rms)
        out.write(json.dumps(rec) + '\n')
        out.flush()
    out.write(json.dumps({'done': True}) + '\n')
    out.flush()


def _children(pid):
    """live (non-zombie) child processes of pid, except multiprocessing's resource tracker"""
    kids = []
    for d in os.listdir('/proc'):
        if not d.isdigit():
            continue
        try:
            with open('/proc/%s/stat' % d) as f:
                st = f.read()
            rp = st.rindex(')')
            fields = st[rp + 2:].split()
            state, ppid = fields[0], int(fields[1])
            if ppid != pid or state == 'Z':
                continue
            with open('/proc/%s/cmdline' % d) as f:
                cmd = f.read().replace('\0', ' ')
            if 'resource_tracker' in cmd:
                continue
            kids.append((int(d), cmd[:80]))
        except (OSError, ValueError):
            continue
    return kids


if __name__ == '__main__':
    main()
